/* C32: the runtime hash table is a map with unique keys across resizes.
 *
 * Contracts (route "harness": PRE assumed, real function called, POST asserted) on the
 * REAL parsec/class/parsec_hash_table.c, included verbatim below.
 *
 * Inductive set-up.  The abstract VIEW of a table is the finite map  key -> element
 * over ALL generations reachable from ht->rw_hash.  wf(table):
 *   - the generations on the allocation chain (next_to_free) have nb_bits NB0, NB0+1, ...
 *     (newest first), the `next` chain is a sub-chain of it that starts at rw_hash;
 *   - every bucket chain is NULL-terminated, made of pool items, and cur_len is its length;
 *   - every item sits in bucket universal_rehash(hash64, nb_bits) OF ITS OWN GENERATION and
 *     hash64 = key_hash(key); every item occurs at most once; keys are pairwise distinct;
 *   - for every old generation used_buckets = number of non-empty buckets, and a generation
 *     that was unlinked from the `next` chain is empty (this is what for_all/find rely on);
 *   - no lock is held.
 * build_state() constructs EVERY wf table over the shape  NG generations x NI items  from the
 * scalars in `vin` (keys, 64-bit hashes, generation of each item, which old generations are
 * still linked, hint, max_table_nb_bits are all symbolic).  Each harness then runs one real
 * operation and checks (1) its map post-condition against the view of the pre-state,
 * (2) wf of the post-state (so wf is an inductive invariant: init establishes it, every
 * operation preserves it), (3) the lock discipline through ghost state fed by the
 * verif_rg.h hooks and by ghost stubs of the rwlock (the rwlock itself is C33).
 *
 * -DOP selects the operation, -DNG / -DNB0 / -DNI the shape (one cbmc process per shape:
 * all table sizes are concrete).
 */
#include "verif.h"
#include "verif_rg.h"
#include <stddef.h>
#include "parsec/parsec_config.h"
#include "parsec/class/parsec_hash_table.h"
#include "parsec/utils/mca_param.h"
#include "parsec/constants.h"

#ifndef NI
#define NI 3            /* pool items                                   */
#endif
#ifndef NB0
#define NB0 1           /* nb_bits of the oldest generation             */
#endif
#ifndef NG
#define NG 2            /* generations in the pre-state                 */
#endif
#define NBITS(g) (NB0 + (g))
#define NBK(g)   (1u << NBITS(g))

#define OP_FIND        1
#define OP_REMOVE      2
#define OP_INSERT      3
#define OP_INSERT_ENV  4   /* insert_impl; another thread resizes between my rdunlock and wrlock */
#define OP_NL_HANDLE   5   /* lock_bucket_handle; nolock_{find,remove,insert}_handle; unlock_bucket_handle */
#define OP_NL_KEY      6   /* lock_bucket; nolock_{find,remove,insert}; unlock_bucket */
#define OP_RESIZE      7
#define OP_FOR_ALL     8
#define OP_NL_ENV      9   /* as OP_NL_HANDLE(insert), environment resizes before my wrlock */
#ifndef OP
#define OP OP_FIND
#endif
/* -DENV_PRE=1: rely step at EVERY acquisition of the read lock: before the lock is granted another thread runs the real
 * resize (rw_hash replaced by a twice larger generation, the old one linked behind it).  Together with the rely step at
 * the write-lock acquisition (OP_*_ENV) this covers every point at which I do not hold the table lock; what happened
 * before the call is covered by the arbitrary well-formed pre-state.  Anything the operation read from the table BEFORE
 * it holds the read lock is stale afterwards. */
#ifndef ENV_PRE
#define ENV_PRE 0
#endif
#if   OP == OP_FIND
#define OPN "find"
#elif OP == OP_REMOVE
#define OPN "remove"
#elif OP == OP_INSERT
#define OPN "insert_impl"
#elif OP == OP_INSERT_ENV
#define OPN "insert_impl_env"
#elif OP == OP_NL_HANDLE
#define OPN "nolock_handle"
#elif OP == OP_NL_KEY
#define OPN "nolock_key"
#elif OP == OP_RESIZE
#define OPN "resize"
#elif OP == OP_FOR_ALL
#define OPN "for_all"
#elif OP == OP_NL_ENV
#define OPN "unlock_bucket_env"
#endif
#define OB(kind, clause) "C32." OPN "." kind "." clause

/* ------------------------------------------------------------------ */
/* inputs                                                              */
/* ------------------------------------------------------------------ */
struct vin {
    uint64_t key[NI];       /* key of pool item i                                        */
    uint64_t h[NI];         /* key_hash(key[i]): arbitrary 64-bit value (collisions incl.) */
    int8_t   gen[NI];       /* generation holding item i in the pre-state, -1 = absent   */
    uint8_t  junk_next[NI]; /* stale next_item of absent items                           */
    uint64_t junk_h[NI];    /* stale hash64 of absent items                              */
    uint64_t probe;         /* key looked up / removed                                   */
    uint64_t hprobe;        /* its hash when it is none of key[]                         */
    uint8_t  linked[NG];    /* old generation g still on the `next` chain                */
    uint8_t  stale_next[NG];
    int32_t  top_used;      /* used_buckets of the newest generation (meaningless there) */
    int32_t  hint;          /* ht->max_collisions_hint                                   */
    int32_t  maxbits;       /* ht->max_table_nb_bits                                     */
    int32_t  warned;        /* ht->warning_issued                                        */
    uint8_t  which;         /* item to insert                                            */
    uint8_t  sub;           /* sub-operation of the nolock harnesses                     */
    uint64_t rh[NI + 1][NG + 2]; /* the bucket-index function as a table (see ghost_rehash)   */
    uint64_t lemma_keys[32];
    int32_t  mca_idx[2], mca_val[2]; /* MCA registry: indexes handed out, current values of the two parameters */
} vin;
#include "verif_vin.h"

/* Contract of the bucket-index function parsec_hash_table_universal_rehash.  In the map jobs every call of it is
 * answered by this contract: the driver's overlay mechanism (spec.py, REHASH_OVERLAY) inserts
 *     V_ASSERT(<requires>); return ghost_rehash(key, nb_bits);
 * at the entry of the function in a scratch copy of the real file (64-bit constant multipliers compared with each
 * other do not finish in SAT, and goto-instrument --dfcc makes this harness 50x slower).  The contract is discharged
 * against the real body by the job rehash.contract (harness h_rehash below, no overlay).  The map property needs exactly two facts about it:
 * it is a FUNCTION of (hash64, nb_bits) and its value is below 2^nb_bits.  Over the finite set of hash values
 * that occur in one harness run (h[0..NI-1], hprobe) an arbitrary such function is a table, rows selected by
 * first match (so equal hashes get equal buckets), entries symbolic. */
#define NROW (NI + 1)
#define NCOL (NG + 2)
#ifdef VERIF_REPLAY
static uint64_t parsec_hash_table_universal_rehash(parsec_key_t key, int nb_bits);
static uint64_t ghost_rehash(uint64_t x, int nb_bits) { return parsec_hash_table_universal_rehash((parsec_key_t)x, nb_bits); }
#else
static uint64_t ghost_rehash(uint64_t x, int nb_bits)
{
    int c = nb_bits - NB0;
    if (c < 0 || c >= NCOL) return 0;
    for (int i = 0; i < NI; i++) if (x == vin.h[i]) return vin.rh[i][c];
    return vin.rh[NI][c];
}
#endif
#include "parsec/class/parsec_hash_table.c"

typedef struct { uint64_t before; parsec_hash_table_item_t hi; uint64_t after; } elt_t;
/* one static object per item (an array of structs would turn every write through a symbolic item pointer into a
 * whole-array update) */
static elt_t pool0, pool1, pool2, pool3;
static elt_t *const P[4] = { &pool0, &pool1, &pool2, &pool3 };
static parsec_hash_table_t ht;
static parsec_hash_table_head_t heads[NG];
static parsec_hash_table_bucket_t bkA[NBK(0)];
#if NG > 1
static parsec_hash_table_bucket_t bkB[NBK(1)];
#endif
#if NG > 2
static parsec_hash_table_bucket_t bkC[NBK(2)];
#endif
static parsec_hash_table_bucket_t *BK[NG + 1];   /* BK[NG]: buckets of a generation created by the call */
static parsec_hash_table_head_t   *H[NG + 1];
static int hash_cookie;

/* ------------------------------------------------------------------ */
/* stubs (trusted base)                                                */
/* ------------------------------------------------------------------ */
/* user key functions: key_hash is an ARBITRARY function of the key (table lookup; first match => function) */
static uint64_t stub_key_hash(parsec_key_t k, void *d)
{
    (void)d;
    for (int i = 0; i < NI; i++) if (k == vin.key[i]) return vin.h[i];
    return vin.hprobe;
}
static int stub_key_equal(parsec_key_t a, parsec_key_t b, void *d) { (void)d; return a == b; }

#ifndef VERIF_REPLAY
/* variadic debug output: no-op (parsec_warning expands to it) */
static int g_warnings;
void parsec_output_verbose(int level, int id, const char *fmt, ...) { (void)level; (void)id; (void)fmt; g_warnings++; }
#endif

/* ghost read/write lock (mutual exclusion of the real one is property C33) */
static int g_rd, g_wr, g_rw_events, g_wr_sections;
static int g_track;
static parsec_hash_table_head_t *g_head_base;      /* rw_hash may change only inside a write section */
static int g_env_resized;
static int g_first_lock_pending;       /* the next bucket lock is the first one of this read section */
static uint64_t g_op_hash;             /* key_hash of the key the operation under test works on */
static void check_head_discipline(void);
static void env_resize(void);
void parsec_atomic_rwlock_rdlock(parsec_atomic_rwlock_t *L)
{
    if (!g_track) return;
    V_ASSERT(L == &ht.rw_lock, OB("guar", "rwlock_is_the_tables_lock"));
    V_ASSERT(g_rd == 0 && g_wr == 0, OB("guar", "no_nested_rwlock_acquisition"));
    check_head_discipline();
#if ENV_PRE
    if (!g_env_resized) env_resize();
#endif
    g_rd++; g_rw_events++;
    g_first_lock_pending = 1;
}
void parsec_atomic_rwlock_rdunlock(parsec_atomic_rwlock_t *L)
{
    if (!g_track) return;
    V_ASSERT(L == &ht.rw_lock && g_rd == 1 && g_wr == 0, OB("guar", "rdunlock_matches_rdlock"));
    check_head_discipline();
    g_rd--; g_rw_events++;
}
void parsec_atomic_rwlock_wrlock(parsec_atomic_rwlock_t *L)
{
    if (!g_track) return;
    V_ASSERT(L == &ht.rw_lock, OB("guar", "rwlock_is_the_tables_lock"));
    V_ASSERT(g_rd == 0 && g_wr == 0, OB("guar", "no_nested_rwlock_acquisition"));
    check_head_discipline();
#if OP == OP_INSERT_ENV || OP == OP_NL_ENV
    /* environment step (rely: others change rw_hash only inside their own write section, by the real resize):
     * another thread that saw the same over-full bucket resized the table before I obtained the write lock */
    env_resize();
#endif
    g_wr++; g_rw_events++; g_wr_sections++;
}
void parsec_atomic_rwlock_wrunlock(parsec_atomic_rwlock_t *L)
{
    if (!g_track) return;
    V_ASSERT(L == &ht.rw_lock && g_wr == 1 && g_rd == 0, OB("guar", "wrunlock_matches_wrlock"));
    g_head_base = ht.rw_hash;      /* a resize inside the write section is allowed */
    g_wr--; g_rw_events++;
}

/* bucket-lock discipline: first_item / cur_len of a pre-state bucket change only between MY lock and MY unlock of
 * that bucket's lock, and bucket locks are taken only under the read lock */
static parsec_hash_table_item_t *g_base_first[NG + 1][NBK(NG)];
static int32_t                   g_base_len[NG + 1][NBK(NG)];
static uint8_t                   g_locked[NG + 1][NBK(NG)];
#define NGT (NG + ENV_PRE)             /* tracked generations: the pre-state ones + the one the environment adds */
static int g_nheld, g_lock_events, g_foreign_lock_events;

static void check_head_discipline(void)
{
    if (!g_wr) V_ASSERT(ht.rw_hash == g_head_base, OB("guar", "rw_hash_changes_only_under_write_lock"));
}
/* environment step: another thread, holding the write lock, runs the real resize (rely: rw_hash changes only this way) */
static void env_resize(void)
{
    int t = g_track;
    g_track = 0;
    parsec_hash_table_resize(&ht);
    g_track = t;
    g_env_resized = 1;
    g_head_base = ht.rw_hash;
#if ENV_PRE
    H[NG] = ht.rw_hash; BK[NG] = ht.rw_hash->buckets;
    for (unsigned b = 0; b < NBK(NG); b++) { g_base_first[NG][b] = BK[NG][b].first_item; g_base_len[NG][b] = BK[NG][b].cur_len; g_locked[NG][b] = 0; }
#endif
}
void verif_env_step(int op, volatile void *loc) { (void)op; (void)loc; }
void verif_own_step(int op, volatile void *loc, int success)
{
    (void)success;
    if (!g_track) return;
    if (op != V_OP_LOCK && op != V_OP_UNLOCK) return;
    int hit = 0;
    if (op == V_OP_LOCK && g_first_lock_pending) {
        /* the bucket lock a public operation / lock_bucket takes first is the lock of the bucket its key hashes to in the
         * generation that is current WHILE the read lock is held */
        g_first_lock_pending = 0;
        parsec_hash_table_head_t *cur = ht.rw_hash;
        uint64_t want = ghost_rehash(g_op_hash, (int)cur->nb_bits);
        V_ASSERT(loc == (volatile void *)&cur->buckets[want].lock,
                 OB("guar", "first_bucket_lock_is_that_of_the_keys_bucket_in_the_generation_current_under_the_read_lock"));
    }
    for (int g = 0; g < NGT; g++)
        for (unsigned b = 0; b < NBK(g); b++)
            if (BK[g] != NULL && loc == (volatile void *)&BK[g][b].lock) {
                hit = 1;
                if (op == V_OP_LOCK) {
                    V_ASSERT(BK[g][b].first_item == g_base_first[g][b] && BK[g][b].cur_len == g_base_len[g][b],
                             OB("guar", "bucket_not_modified_before_its_lock_is_taken"));
                    g_locked[g][b] = 1; g_nheld++;
                } else {
                    V_ASSERT(g_locked[g][b], OB("guar", "unlock_only_of_a_held_bucket_lock"));
                    g_base_first[g][b] = BK[g][b].first_item; g_base_len[g][b] = BK[g][b].cur_len;
                    g_locked[g][b] = 0; g_nheld--;
                }
            }
    if (!hit) g_foreign_lock_events++;
    g_lock_events++;
    V_ASSERT(g_rd == 1 && g_wr == 0, OB("guar", "bucket_locks_used_only_under_the_read_lock"));
    check_head_discipline();
}
static void discipline_begin(void)
{
    for (int g = 0; g < NG; g++)
        for (unsigned b = 0; b < NBK(g); b++) {
            g_base_first[g][b] = BK[g][b].first_item; g_base_len[g][b] = BK[g][b].cur_len; g_locked[g][b] = 0;
        }
    g_head_base = ht.rw_hash; g_rd = g_wr = g_rw_events = g_wr_sections = 0; g_nheld = g_lock_events = g_foreign_lock_events = 0;
    g_env_resized = 0; g_first_lock_pending = 0;
    g_track = 1;
}
static void discipline_end(void)
{
    g_track = 0;
    int same = 1, held = 0;
    V_ASSERT(V_IMPLIES(ENV_PRE, g_env_resized), OB("lemma", "environment_resized_at_my_read_lock_acquisition"));
    for (int g = 0; g < NGT; g++)
        for (unsigned b = 0; b < NBK(g); b++) {
            if (BK[g] == NULL) break;
            if (BK[g][b].first_item != g_base_first[g][b] || BK[g][b].cur_len != g_base_len[g][b]) same = 0;
            if (g_locked[g][b]) held = 1;
        }
    V_ASSERT(same, OB("guar", "bucket_not_modified_after_its_lock_is_released"));
    V_ASSERT(!held && g_nheld == 0, OB("post", "all_bucket_locks_released"));
    V_ASSERT(g_rd == 0 && g_wr == 0, OB("post", "rwlock_released"));
    V_ASSERT(ht.rw_hash == g_head_base, OB("guar", "rw_hash_changes_only_under_write_lock"));
}

/* ------------------------------------------------------------------ */
/* pre-state: every wf table of the shape                              */
/* ------------------------------------------------------------------ */
static int item_index(const parsec_hash_table_item_t *q)
{
    for (int i = 0; i < NI; i++) if (q == &P[i]->hi) return i;
    return -1;
}
/* shape fixing (one cbmc process per shape): -DLINKMASK=m = old generation g is still on the `next` chain iff bit g of m
 * (a symbolic chain makes every generation header a pointer ite and SSA conversion does not finish with 3 generations);
 * -DGENS={g0,g1,..} = generation of each pool item (-1 absent); keys, hashes, bucket function, hint stay symbolic */
#ifdef LINKMASK
#define LINKED(g) (((LINKMASK) >> (g)) & 1)
#else
#define LINKED(g) vin.linked[g]
#endif
#ifdef GENS
static const int8_t fixgen[NI] = GENS;
#define GEN(i) fixgen[i]
#else
#define GEN(i) vin.gen[i]
#endif
static int present(int i) { return GEN(i) >= 0; }

static void build_state(void)
{
    BK[0] = bkA;
#if NG > 1
    BK[1] = bkB;
#endif
#if NG > 2
    BK[2] = bkC;
#endif
    BK[NG] = NULL; H[NG] = NULL;
    for (int g = 0; g < NG; g++) {
        H[g] = &heads[g];
        heads[g].nb_bits = NBITS(g);
        heads[g].buckets = BK[g];
        heads[g].next_to_free = g > 0 ? &heads[g - 1] : NULL;
        heads[g].used_buckets = 0;
        for (unsigned b = 0; b < NBK(g); b++) {
            parsec_atomic_lock_t u = PARSEC_ATOMIC_UNLOCKED;
            BK[g][b].lock = u; BK[g][b].cur_len = 0; BK[g][b].first_item = NULL;
        }
    }
    /* range of the bucket-index function (discharged for the real one by job rehash.contract) */
    for (int r = 0; r < NROW; r++)
        for (int c = 0; c < NCOL; c++) V_ASSUME(vin.rh[r][c] < (1ULL << (NB0 + c)));
    /* unique keys (the property's precondition on the history) */
    for (int i = 0; i < NI; i++)
        for (int j = i + 1; j < NI; j++)
        {
            if (present(i) && present(j)) V_ASSUME(vin.key[i] != vin.key[j]);
            if (vin.key[i] == vin.key[j]) V_ASSUME(vin.h[i] == vin.h[j]);   /* key_hash is a function of the key */
        }
    for (int i = 0; i < NI; i++) {
        V_ASSUME(vin.gen[i] == GEN(i));
        V_ASSUME(vin.gen[i] >= -1 && vin.gen[i] < NG);
        P[i]->hi.key = vin.key[i];
        P[i]->before = 0xb0 + i; P[i]->after = 0xa0 + i;
        if (!present(i)) {
            P[i]->hi.hash64 = vin.junk_h[i];
            P[i]->hi.next_item = vin.junk_next[i] ? &P[(i + 1) % NI]->hi : NULL;
        }
        for (int g = 0; g < NG; g++)
            if (GEN(i) == g) {
                uint64_t b = ghost_rehash(vin.h[i], NBITS(g));
                P[i]->hi.hash64 = vin.h[i];
                P[i]->hi.next_item = BK[g][b].first_item;
                BK[g][b].first_item = &P[i]->hi;
                BK[g][b].cur_len++;
            }
    }
    /* used_buckets of old generations; `next` chain */
    parsec_hash_table_head_t *prev = &heads[NG - 1];
    heads[NG - 1].used_buckets = vin.top_used;
    for (int g = NG - 2; g >= 0; g--) {
        int ne = 0;
        for (unsigned b = 0; b < NBK(g); b++) if (BK[g][b].first_item != NULL) ne++;
        heads[g].used_buckets = ne;
        V_ASSUME(!vin.linked[g] == !LINKED(g));
        if (LINKED(g)) { prev->next = &heads[g]; prev = &heads[g]; }
        else {
            V_ASSUME(ne == 0);                               /* only an emptied generation is ever unlinked */
            heads[g].next = (vin.stale_next[g] && g > 0) ? &heads[g - 1] : NULL;
        }
    }
    prev->next = NULL;

    ht.key_functions.key_equal = stub_key_equal;
    ht.key_functions.key_hash = stub_key_hash;
    ht.key_functions.key_print = NULL;
    ht.hash_data = &hash_cookie;
    ht.elt_hashitem_offset = offsetof(elt_t, hi);
    ht.max_collisions_hint = vin.hint;
    ht.max_table_nb_bits = vin.maxbits;
    ht.warning_issued = vin.warned;
    ht.rw_hash = &heads[NG - 1];
}

/* ------------------------------------------------------------------ */
/* the view of a state, computed by scanning the real data structure   */
/* ------------------------------------------------------------------ */
struct snap {
    int ngen;                 /* generations on the allocation chain: NG, or NG+1 after a resize */
    int cnt[NI], gen[NI], bkt[NI];
    int linked[NG + 1], nonempty[NG + 1];
    int shape_ok, len_ok, locks_ok, chain_ok, newgen_ok;
};
static void scan(struct snap *s)
{
    parsec_hash_table_head_t *top = ht.rw_hash;
    s->ngen = NG; s->shape_ok = s->len_ok = s->locks_ok = s->chain_ok = s->newgen_ok = 1;
    for (int i = 0; i < NI; i++) { s->cnt[i] = 0; s->gen[i] = -1; s->bkt[i] = -1; }
    for (int g = 0; g <= NG; g++) { s->linked[g] = 0; s->nonempty[g] = 0; }
    if (top != &heads[NG - 1]) {
        s->ngen = NG + 1;
        if (top == NULL) { s->newgen_ok = 0; s->ngen = NG; }
        else {
            int known = 0;
            for (int g = 0; g < NG; g++) if (top == &heads[g]) known = 1;
            if (known || top->nb_bits != NBITS(NG) || top->next_to_free != &heads[NG - 1] || top->buckets == NULL) {
                s->newgen_ok = 0; s->ngen = NG;
            } else { H[NG] = top; BK[NG] = top->buckets; }
        }
    }
    /* the `next` chain: strictly towards older generations, NULL-terminated */
    {
        parsec_hash_table_head_t *p = top;
        int last = NG + 1;
        for (int step = 0; step <= NG + 1; step++) {
            if (p == NULL) break;
            int idx = -1;
            for (int g = 0; g < NG + 1; g++) if (g < s->ngen && p == H[g]) idx = g;
            if (idx < 0 || idx >= last) { s->chain_ok = 0; p = NULL; break; }
            s->linked[idx] = 1; last = idx;
            p = H[idx]->next;
        }
        if (p != NULL) s->chain_ok = 0;
    }
    for (int g = 0; g <= NG; g++) {
        if (g >= s->ngen) break;
        if (H[g]->nb_bits != NBITS(g) || H[g]->buckets != BK[g]) s->shape_ok = 0;
        if (g > 0 && H[g]->next_to_free != H[g - 1]) s->shape_ok = 0;
        for (unsigned b = 0; b < NBK(g); b++) {
            parsec_hash_table_bucket_t *B = &BK[g][b];
            parsec_hash_table_item_t *q = B->first_item;
            int len = 0;
            for (int step = 0; step < NI; step++) {
                if (q == NULL) break;
                int idx = item_index(q);
                if (idx < 0) { s->shape_ok = 0; q = NULL; break; }
                s->cnt[idx]++; s->gen[idx] = g; s->bkt[idx] = (int)b; len++;
                q = P[idx]->hi.next_item;
            }
            if (q != NULL) s->shape_ok = 0;          /* longer than the pool: cycle */
            if (B->cur_len != len) s->len_ok = 0;
            if (B->lock != 0) s->locks_ok = 0;
            if (len) s->nonempty[g]++;
        }
    }
}
/* wf of the post-state (inductive invariant) */
static void check_wf(const struct snap *s)
{
    V_ASSERT(s->newgen_ok, OB("inv", "new_generation_has_nb_bits_plus_1_and_extends_the_allocation_chain"));
    V_ASSERT(s->shape_ok, OB("inv", "chains_are_null_terminated_lists_of_items_and_generation_headers_intact"));
    V_ASSERT(s->chain_ok && s->linked[s->ngen - 1], OB("inv", "next_chain_is_a_subchain_from_newest_to_older"));
    V_ASSERT(s->len_ok, OB("inv", "cur_len_is_chain_length"));
    V_ASSERT(s->locks_ok, OB("inv", "all_bucket_locks_free"));
    for (int i = 0; i < NI; i++) {
        V_ASSERT(s->cnt[i] <= 1, OB("inv", "item_stored_at_most_once"));
        V_ASSERT(P[i]->hi.key == vin.key[i] && P[i]->before == 0xb0 + i && P[i]->after == 0xa0 + i,
                 OB("inv", "keys_and_payload_untouched"));
        if (s->cnt[i] == 1) {
            int ok = 0;
            for (int g = 0; g <= NG; g++)
                if (s->gen[i] == g)
                    ok = P[i]->hi.hash64 == vin.h[i] &&
                         (uint64_t)s->bkt[i] == ghost_rehash(vin.h[i], NBITS(g));
            V_ASSERT(ok, OB("inv", "item_in_bucket_rehash_of_its_hash64_for_its_own_generation"));
        }
    }
    for (int g = 0; g <= NG; g++) {
        if (g >= s->ngen) break;
        if (g < s->ngen - 1)
            V_ASSERT(H[g]->used_buckets == s->nonempty[g], OB("inv", "used_buckets_of_old_generation_counts_nonempty_buckets"));
        V_ASSERT(s->linked[g] || s->nonempty[g] == 0, OB("inv", "unlinked_generation_is_empty"));
    }
}
/* sequential map specification */
static void *spec_lookup(uint64_t k)
{
    for (int i = 0; i < NI; i++) if (present(i) && vin.key[i] == k) return P[i];
    return NULL;
}
static int spec_index(uint64_t k)
{
    for (int i = 0; i < NI; i++) if (present(i) && vin.key[i] == k) return i;
    return -1;
}
static int count_nonempty(int g) { int n = 0; for (unsigned b = 0; b < NBK(g); b++) if (BK[g][b].first_item) n++; return n; }

/* view' == expected view; items that were not the target did not move */
static void check_view(const struct snap *pre, const struct snap *post, const int *expect, int moved)
{
    for (int i = 0; i < NI; i++) {
        V_ASSERT(post->cnt[i] == expect[i], OB("post", "view_is_the_expected_map_each_stored_item_exactly_once"));
        if (i != moved && expect[i])
            V_ASSERT(post->gen[i] == pre->gen[i] && post->bkt[i] == pre->bkt[i], OB("post", "other_items_do_not_move"));
    }
}

#if OP == OP_FOR_ALL
static int g_visits[NI], g_bad_visit;
static void visit(void *item, void *cb)
{
    int hit = 0;
    for (int i = 0; i < NI; i++) if (item == (void *)P[i]) { g_visits[i]++; hit = 1; }
    if (!hit || cb != (void *)&g_bad_visit) g_bad_visit = 1;
}
#endif

#ifdef REAL_REHASH
/* contract of parsec_hash_table_universal_rehash against its real body: value below 2^nb_bits for every 64-bit
 * hash and every nb_bits the table can have (init asserts 1..16, resize asserts < 32) */
void h_rehash(void)
{
    vin_load();
#ifndef NBLO
#define NBLO 1
#define NBHI 31
#endif
    for (int nb = NBLO; nb <= NBHI; nb++) {
        uint64_t r = parsec_hash_table_universal_rehash((parsec_key_t)vin.lemma_keys[nb], nb);
        V_ASSERT(r < (1ULL << nb), "C32.universal_rehash.post.bucket_index_below_2_pow_nb_bits");
    }
    V_CANARY("rehash");
}
#endif

/* ------------------------------------------------------------------ */
/* parsec_hash_tables_init + parsec_hash_table_init establish wf       */
/* ------------------------------------------------------------------ */
static int g_reg_calls;
int parsec_mca_param_reg_int_name(const char *type, const char *param_name, const char *help_msg, bool internal, bool read_only,
                                  int default_value, int *current_value)
{   /* MCA registry stub: hands out an index, the current value may differ from the default (environment, command line) */
    (void)type; (void)param_name; (void)help_msg; (void)internal; (void)read_only; (void)default_value;
    int k = g_reg_calls++;
    if (k > 1) k = 1;
    *current_value = vin.mca_val[k];
    return vin.mca_idx[k];
}
int parsec_mca_param_lookup_int(int index, int *value)
{
    for (int k = 0; k < 2; k++) if (index == vin.mca_idx[k]) { *value = vin.mca_val[k]; return PARSEC_SUCCESS; }
    return PARSEC_ERROR;
}
void h_init(void)
{
    vin_load();
    V_ASSUME(vin.mca_idx[0] >= 0 && vin.mca_idx[1] >= 0 && vin.mca_idx[0] != vin.mca_idx[1]);
    g_reg_calls = 0;
    int rc = parsec_hash_tables_init();
    V_ASSERT(rc == PARSEC_SUCCESS && g_reg_calls == 2, "C32.hash_tables_init.post.registers_both_parameters");
    parsec_key_fn_t fns = { .key_equal = stub_key_equal, .key_print = NULL, .key_hash = stub_key_hash };
    parsec_hash_table_init(&ht, offsetof(elt_t, hi), NB0, fns, &hash_cookie);
    parsec_hash_table_head_t *hd = ht.rw_hash;
    V_ASSERT(hd != NULL && hd->nb_bits == NB0 && hd->next == NULL && hd->next_to_free == NULL && hd->used_buckets == 0 && hd->buckets != NULL,
             "C32.init.post.one_generation_of_2_pow_nb_bits_buckets");
    int empty = 1;
    for (unsigned b = 0; b < NBK(0); b++)
        if (hd->buckets[b].lock != 0 || hd->buckets[b].cur_len != 0 || hd->buckets[b].first_item != NULL) empty = 0;
    V_ASSERT(empty, "C32.init.post.view_is_empty_and_all_bucket_locks_free");
    V_ASSERT(ht.max_collisions_hint == vin.mca_val[0] && ht.max_table_nb_bits == vin.mca_val[1] && ht.warning_issued == 0,
             "C32.init.post.resize_parameters_are_the_registered_mca_values");
    V_ASSERT(ht.elt_hashitem_offset == (int64_t)offsetof(elt_t, hi) && ht.hash_data == (void *)&hash_cookie &&
             ht.key_functions.key_hash == stub_key_hash && ht.key_functions.key_equal == stub_key_equal,
             "C32.init.post.offset_key_functions_and_user_data_stored");
#if PARSEC_RWLOCK_IMPL == PARSEC_RWLOCK_IMPL_TICKET
    V_ASSERT(ht.rw_lock.rin == 0 && ht.rw_lock.rout == 0 && ht.rw_lock.win == 0 && ht.rw_lock.wout == 0, "C32.init.post.rwlock_unlocked");
#endif
    /* the state is usable: it is the wf state `1 generation, no item` of the map jobs (first real operations on it) */
    for (int i = 0; i < NI; i++) P[i]->hi.key = vin.key[i];
    for (int r = 0; r < NROW; r++) for (int c = 0; c < NCOL; c++) V_ASSUME(vin.rh[r][c] < (1ULL << (NB0 + c)));
    V_ASSERT(parsec_hash_table_find(&ht, (parsec_key_t)vin.key[0]) == NULL, "C32.init.post.find_on_fresh_table_returns_NULL");
    parsec_hash_table_insert_impl(&ht, &P[0]->hi, "h_ht.c", 3);
    V_ASSERT(parsec_hash_table_find(&ht, (parsec_key_t)vin.key[0]) == (void *)P[0], "C32.init.post.insert_then_find_on_fresh_table");
    V_ASSERT(vin.key[1] == vin.key[0] || parsec_hash_table_find(&ht, (parsec_key_t)vin.key[1]) == NULL, "C32.init.post.other_key_absent");
    V_ASSERT(parsec_hash_table_remove(&ht, (parsec_key_t)vin.key[0]) == (void *)P[0], "C32.init.post.remove_returns_the_element");
    V_ASSERT(parsec_hash_table_find(&ht, (parsec_key_t)vin.key[0]) == NULL, "C32.init.post.removed_key_absent");
    V_CANARY("init");
}

void harness(void)
{
    struct snap pre, post;
    int expect[NI];
    vin_load();
    build_state();
    scan(&pre);
    for (int i = 0; i < NI; i++) expect[i] = pre.cnt[i];
    /* the constructed state is what the view says (sanity of the harness, not of the code) */
    for (int i = 0; i < NI; i++) V_ASSERT(pre.cnt[i] == (present(i) ? 1 : 0) && pre.gen[i] == vin.gen[i], OB("lemma", "constructed_state_matches_view"));
    const int newest = NG - 1 + ENV_PRE;          /* generation that is current while I hold the read lock */
#if ENV_PRE
    V_ASSUME(vin.maxbits <= NBITS(NG) + 1);       /* the generation added by the environment is the last one allowed */
#endif

#if OP == OP_FIND
    discipline_begin();
    g_op_hash = stub_key_hash((parsec_key_t)vin.probe, NULL);
    void *r = parsec_hash_table_find(&ht, (parsec_key_t)vin.probe);
    discipline_end();
    scan(&post);
    int t = spec_index(vin.probe);
    V_ASSERT(r == spec_lookup(vin.probe), OB("post", "returns_view_of_key_or_NULL"));
    check_view(&pre, &post, expect, t);
    if (t >= 0) V_ASSERT(post.gen[t] == newest, OB("post", "found_item_is_in_newest_generation_afterwards"));
    V_ASSERT(post.ngen == NG + ENV_PRE && g_wr_sections == 0, OB("post", "no_resize"));
    check_wf(&post);

#elif OP == OP_REMOVE
    discipline_begin();
    g_op_hash = stub_key_hash((parsec_key_t)vin.probe, NULL);
    void *r = parsec_hash_table_remove(&ht, (parsec_key_t)vin.probe);
    discipline_end();
    scan(&post);
    int t = spec_index(vin.probe);
    V_ASSERT(r == spec_lookup(vin.probe), OB("post", "returns_view_of_key_or_NULL"));
    if (t >= 0) expect[t] = 0;
    check_view(&pre, &post, expect, t);
    V_ASSERT(post.ngen == NG + ENV_PRE && g_wr_sections == 0, OB("post", "no_resize"));
    check_wf(&post);

#elif OP == OP_INSERT || OP == OP_INSERT_ENV
    int j = vin.which;
    V_ASSUME(j < NI && !present(j));
    for (int i = 0; i < NI; i++) if (present(i)) V_ASSUME(vin.key[i] != vin.key[j]);     /* PRE: key absent */
    uint64_t bj = ghost_rehash(vin.h[j], NBITS(newest));
    int len_after = ENV_PRE ? 1 : BK[NG - 1][bj].cur_len + 1;   /* the environment's new generation is empty */
    int want_resize = len_after > vin.hint && NBITS(newest) + 1 < vin.maxbits;
    discipline_begin();
    g_op_hash = vin.h[j];
    parsec_hash_table_insert_impl(&ht, &P[j]->hi, "h_ht.c", 1);
    discipline_end();
    scan(&post);
    expect[j] = 1;
    check_view(&pre, &post, expect, j);
    V_ASSERT(post.gen[j] == newest && post.bkt[j] == (int)bj, OB("post", "inserted_into_newest_generation_bucket_of_its_hash"));
#if ENV_PRE
    V_ASSERT(!want_resize && post.ngen == NG + 1 && g_wr_sections == 0, OB("post", "no_resize_of_mine_after_the_environments"));
#else
    V_ASSERT(V_IFF(post.ngen == NG + 1, want_resize), OB("post", "resized_iff_bucket_longer_than_hint_and_below_max_bits"));
    V_ASSERT(V_IFF(g_wr_sections == 1, want_resize) && g_wr_sections <= 1, OB("post", "write_section_iff_resize_wanted"));
#if OP == OP_INSERT_ENV
    V_ASSERT(V_IFF(g_env_resized, want_resize), OB("lemma", "environment_resized_exactly_when_I_wanted_to"));
    /* exactly ONE new generation although two threads wanted the resize (resize only if rw_hash is unchanged) */
#endif
    if (post.ngen == NG + 1) {
        V_ASSERT(H[NG]->next == &heads[newest] && post.nonempty[NG] == 0, OB("post", "new_generation_is_empty_and_chained_before_the_old_one"));
        V_ASSERT(heads[newest].used_buckets == count_nonempty(newest), OB("post", "resize_counts_used_buckets_of_the_retired_generation"));
    }
#endif
    check_wf(&post);

#elif OP == OP_NL_HANDLE || OP == OP_NL_KEY || OP == OP_NL_ENV
    /* the documented pattern: lock the bucket of a key, operate on that key without locks, unlock */
    int j = vin.which;
    uint64_t K;
    int sub = vin.sub;
#if OP == OP_NL_ENV
    sub = 2;
#endif
    V_ASSUME(sub <= 2);
    if (sub == 2) {
        V_ASSUME(j < NI && !present(j));
        for (int i = 0; i < NI; i++) if (present(i)) V_ASSUME(vin.key[i] != vin.key[j]);
        K = vin.key[j];
    } else K = vin.probe;
    uint64_t hK = stub_key_hash((parsec_key_t)K, NULL);
    uint64_t bK = ghost_rehash(hK, NBITS(newest));
    int t = spec_index(K);
    void *r = NULL;
    discipline_begin();
    g_op_hash = hK;
#if OP == OP_NL_KEY
    parsec_hash_table_lock_bucket(&ht, (parsec_key_t)K);
#else
    parsec_key_handle_t kh;
    parsec_hash_table_lock_bucket_handle(&ht, (parsec_key_t)K, &kh);
    V_ASSERT(kh.key == K && kh.hash64 == hK && kh.hash == bK, OB("post", "handle_is_key_hash64_and_bucket_in_newest_generation"));
#endif
    V_ASSERT(g_rd == 1 && g_wr == 0 && g_nheld == 1 && g_locked[newest][bK], OB("post", "lock_bucket_holds_read_lock_and_newest_bucket_of_key"));
    int ev = g_rw_events;
#if OP == OP_NL_KEY
    if (sub == 0)      r = parsec_hash_table_nolock_find(&ht, (parsec_key_t)K);
    else if (sub == 1) r = parsec_hash_table_nolock_remove(&ht, (parsec_key_t)K);
    else               parsec_hash_table_nolock_insert(&ht, &P[j]->hi);
#else
    if (sub == 0)      r = parsec_hash_table_nolock_find_handle(&ht, &kh);
    else if (sub == 1) r = parsec_hash_table_nolock_remove_handle(&ht, &kh);
    else               parsec_hash_table_nolock_insert_handle(&ht, &kh, &P[j]->hi);
#endif
    /* nolock_* run entirely under the caller's read lock + newest bucket lock; locks of old buckets are released again */
    V_ASSERT(g_rw_events == ev && g_rd == 1, OB("guar", "nolock_op_keeps_the_read_lock"));
    V_ASSERT(g_nheld == 1 && g_locked[newest][bK], OB("guar", "nolock_op_returns_with_only_the_callers_bucket_lock_held"));
    int len_at_unlock = BK[newest][bK].cur_len;
#if OP == OP_NL_KEY
    parsec_hash_table_unlock_bucket_impl(&ht, (parsec_key_t)K, "h_ht.c", 2);
#else
    parsec_hash_table_unlock_bucket_handle_impl(&ht, &kh, "h_ht.c", 2);
#endif
    discipline_end();
    scan(&post);
    if (sub == 0) {
        V_ASSERT(r == spec_lookup(K), OB("post", "find_returns_view_of_key_or_NULL"));
        if (t >= 0) V_ASSERT(post.gen[t] == newest, OB("post", "found_item_is_in_newest_generation_afterwards"));
    } else if (sub == 1) {
        V_ASSERT(r == spec_lookup(K), OB("post", "remove_returns_view_of_key_or_NULL"));
        if (t >= 0) expect[t] = 0;
    } else {
        expect[j] = 1; t = j;
        V_ASSERT(post.gen[j] == newest && post.bkt[j] == (int)bK, OB("post", "inserted_into_newest_generation_bucket_of_its_hash"));
    }
    check_view(&pre, &post, expect, t);
#if ENV_PRE
    V_ASSERT(post.ngen == NG + 1 && g_wr_sections == 0, OB("post", "no_resize_of_mine_after_the_environments"));
#else
    {
        int want_resize = len_at_unlock > vin.hint && NBITS(newest) + 1 < vin.maxbits;
        V_ASSERT(V_IFF(post.ngen == NG + 1, want_resize), OB("post", "resized_iff_bucket_longer_than_hint_and_below_max_bits"));
        V_ASSERT(V_IFF(g_wr_sections == 1, want_resize) && g_wr_sections <= 1, OB("post", "write_section_iff_resize_wanted"));
        if (post.ngen == NG + 1) {
            V_ASSERT(H[NG]->next == &heads[newest] && post.nonempty[NG] == 0, OB("post", "new_generation_is_empty_and_chained_before_the_old_one"));
            V_ASSERT(heads[newest].used_buckets == count_nonempty(newest), OB("post", "resize_counts_used_buckets_of_the_retired_generation"));
        }
    }
#endif
    check_wf(&post);

#elif OP == OP_RESIZE
    /* PRE: caller holds the write lock */
    discipline_begin();
    g_wr = 1;
    parsec_hash_table_resize(&ht);
    g_head_base = ht.rw_hash; g_wr = 0;
    V_ASSERT(g_lock_events == 0 && g_rw_events == 0, OB("guar", "resize_takes_no_lock_itself"));
    discipline_end();
    scan(&post);
    check_view(&pre, &post, expect, -1);
    V_ASSERT(post.ngen == NG + 1, OB("post", "one_new_generation_twice_as_large"));
    if (post.ngen == NG + 1) {
        V_ASSERT(H[NG]->next == &heads[newest] && post.nonempty[NG] == 0, OB("post", "new_generation_is_empty_and_chained_before_the_old_one"));
        V_ASSERT(H[NG]->used_buckets == 0, OB("post", "new_generation_used_buckets_zero"));
    }
    V_ASSERT(heads[newest].used_buckets == count_nonempty(newest), OB("post", "resize_counts_used_buckets_of_the_retired_generation"));
    check_wf(&post);

#elif OP == OP_FOR_ALL
    for (int i = 0; i < NI; i++) g_visits[i] = 0;
    g_bad_visit = 0;
    discipline_begin();
    parsec_hash_table_for_all(&ht, visit, (void *)&g_bad_visit);
    V_ASSERT(g_lock_events == 0 && g_rw_events == 0, OB("guar", "iteration_takes_no_lock"));
    discipline_end();
    scan(&post);
    for (int i = 0; i < NI; i++)
        V_ASSERT(g_visits[i] == (present(i) ? 1 : 0), OB("post", "each_stored_item_visited_exactly_once_absent_items_never"));
    V_ASSERT(!g_bad_visit, OB("post", "callback_gets_element_base_address_and_cb_data"));
    check_view(&pre, &post, expect, -1);
    check_wf(&post);
#endif
    V_CANARY(OPN);
}
