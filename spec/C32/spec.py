from vlib import Job

HT = "parsec/class/parsec_hash_table.c"
# contract of parsec_hash_table_universal_rehash answered at the function's entry (see h_ht.c, ghost_rehash);
# the driver aborts (undecided) if the anchor does not match exactly one definition
REHASH_OVERLAY = [(HT, [dict(function="parsec_hash_table_universal_rehash", at_entry=True, text=
    "    V_ASSERT(nb_bits >= NB0 && nb_bits < NB0 + NCOL, \"C32.universal_rehash.pre.nb_bits_is_that_of_an_existing_generation\");\n"
    "    return ghost_rehash((uint64_t)(uintptr_t)key, nb_bits);")])]

OPS = {"find": 1, "remove": 2, "insert_impl": 3, "insert_impl_env": 4, "nolock_handle": 5, "nolock_key": 6,
       "resize": 7, "for_all": 8, "unlock_bucket_env": 9}
FUNCS = {
    "find": ["parsec_hash_table_find", "parsec_hash_table_nolock_find", "parsec_hash_table_nolock_find_handle",
             "parsec_hash_table_nolock_find_in_old_tables", "parsec_hash_table_nolock_insert", "parsec_hash_table_nolock_insert_handle"],
    "remove": ["parsec_hash_table_remove", "parsec_hash_table_nolock_remove", "parsec_hash_table_nolock_remove_handle",
               "parsec_hash_table_nolock_remove_from_old_tables"],
    "insert_impl": ["parsec_hash_table_insert_impl", "parsec_hash_table_nolock_insert", "parsec_hash_table_resize"],
    "insert_impl_env": ["parsec_hash_table_insert_impl", "parsec_hash_table_resize"],
    "nolock_handle": ["parsec_hash_table_lock_bucket_handle", "parsec_hash_table_unlock_bucket_handle_impl",
                      "parsec_hash_table_nolock_find_handle", "parsec_hash_table_nolock_remove_handle",
                      "parsec_hash_table_nolock_insert_handle", "parsec_hash_table_resize"],
    "nolock_key": ["parsec_hash_table_lock_bucket", "parsec_hash_table_unlock_bucket_impl", "parsec_hash_table_nolock_find",
                   "parsec_hash_table_nolock_remove", "parsec_hash_table_nolock_insert"],
    "resize": ["parsec_hash_table_resize"],
    "for_all": ["parsec_hash_table_for_all", "parsec_hash_table_item_lookup"],
    "unlock_bucket_env": ["parsec_hash_table_unlock_bucket_handle_impl"],
}
CHAIN_LOOPS = ["parsec_hash_table_nolock_find_in_old_tables.1", "parsec_hash_table_nolock_remove_from_old_tables.1",
               "parsec_hash_table_nolock_remove_handle.0", "parsec_hash_table_nolock_find_handle.0", "parsec_hash_table_for_all.2"]


def old2_job(op, gens, linkmask=3, timeout=900):
    """find / remove through the old-table walk with TWO older generations behind the current one (3 generations of 2/4/8
    buckets, 3 items).  The generation of every item and the set of linked old generations are fixed per cbmc process
    (symbolic ones do not finish with 3 generations); keys, 64-bit hashes, the bucket function (hence which items share a
    bucket and whether the hit is first in its chain), hint and max bits stay symbolic."""
    tag = "".join("x" if g < 0 else str(g) for g in gens)
    j = map_job(op, 3, 1, ni=len(gens), timeout=timeout)
    j.name = "%s.old2.i%s.l%d" % (op, tag, linkmask)
    j.defines["GENS"] = "{" + ",".join(str(g) for g in gens) + "}"
    j.defines["LINKMASK"] = linkmask
    j.mem_gb = 3
    j.bounded = ("pre-state = every well-formed table with 3 generations of 2/4/8 buckets, items placed in generations %s (0 = oldest, "
                 "2 = current), old generations linked: mask %d; keys, hashes, bucket function (all bucket-sharing and chain-position "
                 "patterns), hint, max bits symbolic" % (list(gens), linkmask))
    return j


def map_job(op, ng, nb0, ni=3, timeout=900, env_pre=0):
    top = 1 << (nb0 + ng)            # buckets of a generation created by the call
    us = {l: ni + 2 for l in CHAIN_LOOPS}
    return Job("%s%s.g%d.b%d%s" % (op, ".pre_resize" if env_pre else "", ng, nb0, "" if ni == 3 else ".i%d" % ni), "h_ht.c", entry="harness",
               defines={"OP": OPS[op], "NG": ng, "NB0": nb0, "NI": ni, "ENV_PRE": env_pre}, overlay=REHASH_OVERLAY,
               unwind=top + 1, unwindset=us, object_bits=10,
               bounded="pre-state = every well-formed table with exactly %d generation(s) of %s buckets and <= %d items "
                       "(keys, 64-bit hashes, bucket function, placement, hint, max_table_nb_bits symbolic)"
                       % (ng, "/".join(str(1 << (nb0 + g)) for g in range(ng)), ni),
               functions=FUNCS[op], timeout=timeout, mem_gb=(3 if ng == 1 else 6), min_obligations=12, replay=True)


def jobs(tier):
    J = []
    full = tier == "thorough"
    to = 2400 if full else 900
    for op in OPS:
        shapes = [(1, 1)]
        if full or op not in ("nolock_handle", "nolock_key", "insert_impl_env"):
            shapes.append((2, 1))                      # migration from an older generation needs >= 2 generations
        if full and op in ("remove", "insert_impl", "resize", "unlock_bucket_env"):
            shapes.append((2, 2))
        if full and op in ("insert_impl", "resize"):
            shapes.append((3, 1))                      # find/remove with 3 generations do not finish (SSA conversion > 15 min, OOM at 10 GB)
        for ng, nb0 in shapes:
            # quick tier: the two heaviest 2-generation jobs run with 2 items (3 in the thorough tier)
            ni = 2 if (not full and ng == 2 and op in ("find", "remove")) else 3
            j = map_job(op, ng, nb0, ni=ni, timeout=to)
            if ng == 3:
                j.mem_gb = 10
            J.append(j)
    # rely step "another thread runs the real resize" at my read-lock acquisition (ENV_PRE): whatever the operation read
    # from the table before it holds the read lock is stale; the first bucket lock must be the one of the key's bucket
    # in the generation that is current under the read lock
    for op in ("find", "remove", "insert_impl", "nolock_handle", "nolock_key"):
        # find.pre_resize.g2 = find walking TWO old generations: like find.g3 it does not finish (back end gives up with
        # status ERROR after ~8 min even with 1 item and 12 GB), so it is not part of any tier
        for ng, nb0 in ([(1, 1), (2, 1)] if full and op in ("remove", "insert_impl") else [(1, 1)]):
            J.append(map_job(op, ng, nb0, timeout=to, env_pre=1))
    # walk through TWO old generations (hit first / not first in its chain, in the first / second old table, buckets of the
    # old tables holding 0..3 items): one process per placement of the items
    if full:
        import itertools
        tuples = list(itertools.product((0, 1, 2), repeat=3))
        for op in ("find", "remove"):
            for g in tuples:
                J.append(old2_job(op, g, 3, timeout=to))
            for g, m in (((1, 1, 2), 2), ((1, 2, 1), 2), ((0, 0, 2), 1), ((0, 2, 0), 1)):   # one old generation emptied and unlinked
                J.append(old2_job(op, g, m, timeout=to))
    else:
        for g in ((1, 0, 0), (0, 1, 1), (1, 0, 2), (0, 0, 1)):
            J.append(old2_job("find", g, 3, timeout=to))
        for g in ((1, 0, 0), (0, 1, 1)):
            J.append(old2_job("remove", g, 3, timeout=to))
    for nb in ((1, 2) if full else (1,)):
        J.append(Job("init.b%d" % nb, "h_ht.c", entry="h_init", defines={"NB0": nb, "NG": 1, "NI": 3}, overlay=REHASH_OVERLAY,
                     unwind=(1 << (nb + 1)) + 1, unwindset={l: 5 for l in CHAIN_LOOPS}, object_bits=10,
                     bounded="nb_bits = %d at creation (the code allows 1..16)" % nb,
                     functions=["parsec_hash_tables_init", "parsec_hash_table_init"], timeout=900, min_obligations=8))
    # contract of the bucket-index function against its real body: complete (all 64-bit hashes, nb_bits 1..31)
    J.append(Job("rehash.contract", "h_ht.c", entry="h_rehash", defines={"REAL_REHASH": None, "NG": 1}, unwind=33,
                 functions=["parsec_hash_table_universal_rehash"], timeout=600, min_obligations=1))
    return J


META = dict(
    level="other",
    functions=sorted(set(sum(FUNCS.values(), [])) | {"parsec_hash_table_universal_rehash", "parsec_hash_tables_init", "parsec_hash_table_init"}),
    explanation="Inductive data-structure contracts on the real parsec/class/parsec_hash_table.c (route harness: PRE assumed, real function "
                "called, POST asserted).  View = finite map key -> element over ALL generations reachable from rw_hash.  wf: generations on the "
                "allocation chain have nb_bits NB0, NB0+1, ...; the `next` chain is a sub-chain of it starting at rw_hash; every bucket chain is "
                "a NULL-terminated list of items with cur_len = its length; every item lies in bucket universal_rehash(hash64, nb_bits) of ITS OWN "
                "generation with hash64 = key_hash(key); each item stored at most once, keys distinct; used_buckets of an old generation = number "
                "of non-empty buckets; a generation unlinked from `next` is empty; no lock held.  For EVERY wf table of the job's shape (NG "
                "generations, <= 3 items; keys, 64-bit hashes, the bucket function, placement, linked/unlinked old generations, "
                "max_collisions_hint and max_table_nb_bits all symbolic, collisions included) one real operation is run and checked: find returns "
                "view(k) and leaves the view unchanged (a hit in an old generation is migrated to the newest one, other items do not move); remove "
                "returns view(k) and view' = view minus k; insert_impl (PRE key absent) gives view' = view + {k -> item} in the newest generation; "
                "a resize happens iff the bucket exceeds the hint and nb_bits+1 < max_table_nb_bits, leaves the view unchanged, adds one empty "
                "generation with nb_bits+1 in front of the chain and counts used_buckets of the retired one; the same for the documented pattern "
                "lock_bucket(_handle); nolock_find/remove/insert(_handle); unlock_bucket(_handle); for_all on a quiescent table calls back each "
                "stored element exactly once with its base address; hash_tables_init + init establish wf with the registered MCA values; wf is "
                "re-established by every operation (so it is an inductive invariant: history length is unbounded, the shape is bounded).  "
                "Jobs *.old2.* run find / remove on tables with the current generation and TWO older ones (hit first or not first in its "
                "chain, in the first or second old table, old buckets holding 0..3 items) and state the same whole-view contract: the hit migrates to "
                "the current generation, every other stored item stays exactly once where it was, cur_len of every bucket of every generation equals "
                "its chain length, used_buckets / unlinking bookkeeping holds.  "
                "Lock discipline (ghost state fed by the verif_rg.h lock hooks and ghost stubs of the rwlock): bucket locks are taken only under "
                "the read lock, first_item/cur_len of a bucket are unchanged when its lock is taken and after it is released (i.e. buckets, old "
                "generations included, are modified only under their own lock), nolock_* return holding exactly the caller's read lock and newest "
                "bucket lock, every public call returns with all locks released, rw_hash changes only inside a write section, and when another "
                "thread resizes between my rdunlock and my wrlock (jobs *_env: the real resize run as environment step) no second generation is added; when another thread resizes just before my read lock is granted (jobs *.pre_resize) the first bucket lock taken is still the lock of the key's bucket in the generation that is current under the read lock, and all contracts above hold in the enlarged table.",
    trusted_base=["parsec_atomic_rwlock_rdlock/rdunlock/wrlock/wrunlock are ghost stubs (counters + discipline assertions); the real rwlock is C33",
                  "parsec_atomic_lock on a bucket = assume(free); take (verif_rg.h): blocked executions are not explored",
                  "user key functions: key_hash = arbitrary function of the key (table), key_equal = equality of the 64-bit keys "
                  "(the header's generic key_equal is NULL and is only valid with an injective key_hash)",
                  "parsec_hash_table_universal_rehash is answered by its contract in the map jobs (driver overlay inserting "
                  "`assert requires; return ghost_rehash(key, nb_bits)` at the function entry of a scratch copy): an arbitrary function of "
                  "(hash64, nb_bits) with value < 2^nb_bits, represented as a symbolic table over the hashes of the run; the range clause is "
                  "discharged on the real body by job rehash.contract for all 64-bit hashes and nb_bits 1..31; that the real body is a function of "
                  "its arguments is read off the source (no state is read)",
                  "parsec_mca_param_reg_int_name / parsec_mca_param_lookup_int stubbed as a two-entry registry (init jobs)",
                  "parsec_output_verbose (parsec_warning) stubbed as no-op",
                  "CBMC's model of malloc for the generation allocated by resize/init"],
    assumptions=["concurrent linearizability is NOT mechanised: it is argued from the discharged lock discipline (every access to a bucket happens "
                 "under that bucket's lock and the table read lock, resize is exclusive under the write lock, so each operation takes effect "
                 "atomically with respect to the buckets it touches) plus mutual exclusion of the locks (C33)",
                 "interference = the rely step 'another thread runs the real resize' at every point where I do not hold the table lock: at each "
                 "read-lock acquisition (jobs *.pre_resize: anything read from the table before the read lock is held is stale) and between my "
                 "rdunlock and wrlock (jobs *_env); what other threads did before the call is covered by the arbitrary wf pre-state; interference "
                 "WHILE I hold the read lock (other readers working on other buckets, concurrent unlinking of old generations by CAS on "
                 "head->next) is not examined",
                 "callers insert a key only when it is absent (unique keys) and nolock_* are called between lock_bucket(_handle) and unlock of the same key",
                 "shape bound: <= 3 items (quick: 2 items in find/remove with 2 generations), generations of 2..16 buckets; find/remove through two old generations (3 generations of 2/4/8 buckets) only for placements of the items fixed per process (jobs *.old2.*); otherwise find/remove/nolock_*/for_all from tables of 1 or 2 generations, insert_impl/resize also from 3 generations (thorough); chains <= 3",
                 "parsec_hash_tables_init succeeded before parsec_hash_table_init (otherwise max_collisions_hint / max_table_nb_bits stay uninitialised)"],
)
MANIFEST = dict(
    category="other",
    text="Inductive-step contracts (map view over all generations + well-formedness invariant + ghost lock discipline) on the real hash-table "
         "code, discharged by CBMC for every well-formed table of a bounded shape (<= 3 items, 1-2 generations; find/remove also across two old generations for enumerated item placements; insert/resize up to 3 generations in the thorough tier; bucket "
         "function and 64-bit hashes arbitrary, hint and max bits symbolic): sequential map semantics of insert/find/remove/nolock_*/resize/"
         "for_all/init including migration from older generations; unbounded in history length, bounded in shape, concurrency only through the "
         "lock discipline -> 'other', not 'proof'.",
    note="Not decided: linearizability under real interleavings (argued from the lock discipline; rwlock is C33; only 'another thread resized' at my lock "
         "acquisitions is modelled as interference); concurrent unlinking of emptied generations; tables with more than 3 items / 16 buckets; find/remove across TWO old generations are decided only for fixed placements (jobs *.old2.*: generation of each of the 3 "
         "items and the set of linked old generations fixed per process - quick 6 placements, thorough all 27 placements over 3 generations "
         "plus 4 with an unlinked generation, for find and for remove; bucket sharing, chain position of the hit, keys, hashes symbolic); the "
         "fully symbolic 3-generation jobs (find.g3, remove.g3, find.pre_resize.g2) do not finish and are in no tier; more than two old "
         "generations are not examined; 1..16 threads are not enumerated (rely/guarantee style, one thread + environment); fini and stat are not under contract; "
         "universal_rehash is abstracted by its contract (range proved, functionality by inspection).",
    technique="inductive data-structure invariant + pre/post contracts + ghost lock discipline on the real parsec_hash_table.c, discharged by "
              "CBMC (shape-bounded); callee universal_rehash replaced by its contract via the driver's overlay; contract discharged separately",
    design_ref="DESIGN.md section 5, C32")
