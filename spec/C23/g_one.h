/* glue for jdf/one.jdf, class T(k):  k = LO .. HI */
#define NP 1
typedef __parsec_c23_one_internal_taskpool_t c23_tp_t;
typedef __parsec_c23_one_T_parsec_assignment_t c23_as_t;
typedef __parsec_c23_one_T_task_t c23_task_t;
#define MAKE_KEY       __jdf2c_make_key_T
#define KEY_PRINT      __jdf2c_key_fns_T_key_print
#define KEY_PRINT_DEPS c23_one_c23_one_T_internal_init_deps_key_functions_key_print
#define INIT_MINMAX    c23_one_T_internal_init
#define CLASS_FMT      "T(%d)"
static const int KIND[NP] = { RANGED };
static const int DEFORD[NP] = { 0 };          /* j-th local that is a parameter, as index in the parameter list */
static int *tp_min(c23_tp_t *t, int p)   { (void)p; return &t->T_k_min; }
static int *tp_range(c23_tp_t *t, int p) { (void)p; return &t->T_k_range; }
static void as_set(c23_tp_t *t, c23_as_t *as, const int32_t *g) { (void)t; as->k.value = g[0]; }
static void glue_globals_symbolic(c23_tp_t *t) { t->super._g_LO = vin.base[0]; t->super._g_HI = vin.base[1]; }
/* shape: S0 values starting at the symbolic base */
static void glue_globals_shape(c23_tp_t *t) { t->super._g_LO = vin.base[0]; t->super._g_HI = vin.base[0] + S0 - 1; }
static int spec_derived(c23_tp_t *t, const int32_t *g) { (void)t; (void)g; return 1; }
static int spec_in_space(c23_tp_t *t, const int32_t *g) { return t->super._g_LO <= g[0] && g[0] <= t->super._g_HI; }
