/* glue for jdf/tri.jdf, class T(m, n):  m = MB .. NM;  lo = m - 2;  n = lo .. NN */
#define NP 2
typedef __parsec_c23_tri_internal_taskpool_t c23_tp_t;
typedef __parsec_c23_tri_T_parsec_assignment_t c23_as_t;
typedef __parsec_c23_tri_T_task_t c23_task_t;
#define MAKE_KEY       __jdf2c_make_key_T
#define KEY_PRINT      __jdf2c_key_fns_T_key_print
#define KEY_PRINT_DEPS c23_tri_c23_tri_T_internal_init_deps_key_functions_key_print
#define INIT_MINMAX    c23_tri_T_internal_init
#define CLASS_FMT      "T(%d, %d)"
static const int KIND[NP] = { RANGED, RANGED };
static const int DEFORD[NP] = { 0, 1 };
static int *tp_min(c23_tp_t *t, int p)   { return p == 0 ? &t->T_m_min : &t->T_n_min; }
static int *tp_range(c23_tp_t *t, int p) { return p == 0 ? &t->T_m_range : &t->T_n_range; }
static void as_set(c23_tp_t *t, c23_as_t *as, const int32_t *g) { (void)t; as->m.value = g[0]; as->lo.value = g[0] - 2; as->n.value = g[1]; }
static void glue_globals_symbolic(c23_tp_t *t) { t->super._g_MB = vin.base[0]; t->super._g_NM = vin.base[1]; t->super._g_NN = vin.base[2]; }
/* shape: m takes S0 values from the symbolic base; n ends S1 values above the base - 2 (so n = m-2 .. NN is
 * empty for the larger m when S1 is small) */
static void glue_globals_shape(c23_tp_t *t)
{
    t->super._g_MB = vin.base[0]; t->super._g_NM = vin.base[0] + S0 - 1; t->super._g_NN = vin.base[0] - 2 + S1 - 1;
}
static int spec_derived(c23_tp_t *t, const int32_t *g) { (void)t; (void)g; return 1; }
static int spec_in_space(c23_tp_t *t, const int32_t *g)
{
    return t->super._g_MB <= g[0] && g[0] <= t->super._g_NM && g[0] - 2 <= g[1] && g[1] <= t->super._g_NN;
}
