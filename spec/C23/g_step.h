/* glue for jdf/step.jdf, class T(i, j, k):  i = LO .. HI .. 2;  j = NJ .. -2 .. -1;  k = i-3 .. i+NK .. ST */
#define NP 3
typedef __parsec_c23_step_internal_taskpool_t c23_tp_t;
typedef __parsec_c23_step_T_parsec_assignment_t c23_as_t;
typedef __parsec_c23_step_T_task_t c23_task_t;
#define MAKE_KEY       __jdf2c_make_key_T
#define KEY_PRINT      __jdf2c_key_fns_T_key_print
#define KEY_PRINT_DEPS c23_step_c23_step_T_internal_init_deps_key_functions_key_print
#define INIT_MINMAX    c23_step_T_internal_init
#define CLASS_FMT      "T(%d, %d, %d)"
static const int KIND[NP] = { RANGED, RANGED, RANGED };
static const int DEFORD[NP] = { 0, 1, 2 };
static int *tp_min(c23_tp_t *t, int p)   { return p == 0 ? &t->T_i_min : p == 1 ? &t->T_j_min : &t->T_k_min; }
static int *tp_range(c23_tp_t *t, int p) { return p == 0 ? &t->T_i_range : p == 1 ? &t->T_j_range : &t->T_k_range; }
static void as_set(c23_tp_t *t, c23_as_t *as, const int32_t *g) { (void)t; as->i.value = g[0]; as->j.value = g[1]; as->k.value = g[2]; }
static void glue_globals_symbolic(c23_tp_t *t)
{
    t->super._g_LO = vin.base[0]; t->super._g_HI = vin.base[1]; t->super._g_NJ = vin.base[2];
    t->super._g_NK = vin.base[3]; t->super._g_ST = vin.base[4];
}
/* shape: i spans S0 consecutive integers from the symbolic base (every second one is a value); j takes the S1 values
 * -2 .. S1-3 downwards; S3 is the step of k (any sign, not 0), k spans S2 integers: upwards from i-3 when the step is
 * positive, downwards from i-3 when it is negative */
static void glue_globals_shape(c23_tp_t *t)
{
    t->super._g_LO = vin.base[0]; t->super._g_HI = vin.base[0] + S0 - 1;
    t->super._g_NJ = S1 - 3;
    t->super._g_ST = S3;
    t->super._g_NK = (S3 > 0) ? (S2 - 1) - 3 : -(S2 - 1) - 3;
}
static int spec_derived(c23_tp_t *t, const int32_t *g) { (void)t; (void)g; return 1; }
static int spec_in_space(c23_tp_t *t, const int32_t *g)
{
    int32_t i = g[0], j = g[1], k = g[2], st = t->super._g_ST, s = i - 3, e = i + t->super._g_NK;
    if (!(t->super._g_LO <= i && i <= t->super._g_HI && (i - t->super._g_LO) % 2 == 0)) return 0;
    if (!(-2 <= j && j <= t->super._g_NJ)) return 0;
    if (st > 0) return s <= k && k <= e && (k - s) % st == 0;
    if (st < 0) return e <= k && k <= s && (s - k) % (-st) == 0;
    return 0;
}
