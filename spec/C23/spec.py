import os, re, subprocess, tempfile, itertools
from vlib import Job
import vlib

HERE = os.path.dirname(os.path.abspath(__file__))
PC = "parsec/interfaces/ptg/ptg-compiler"

# --------------------------------------------------------------------------------------------------------------
# corpus: name -> JDF (relative to HERE, or to REPO when it starts with "repo:") and task class; the glue header g_<name>.h
# holds the field accessors and the JDF's semantics (execution space) written from the JDF text
# --------------------------------------------------------------------------------------------------------------
CORPUS = {
    "one":  dict(jdf="jdf/one.jdf",  cls="T"),    # 1 parameter, both bounds symbolic
    "tri":  dict(jdf="jdf/tri.jdf",  cls="T"),    # inner range depends on the outer parameter through a derived local
    "step": dict(jdf="jdf/step.jdf", cls="T"),    # steps (+2, -1 descending, global step of either sign), negative bounds
    "four": dict(jdf="jdf/four.jdf", cls="T"),    # 4 parameters, locals defined in another order than the parameter list
    "expr": dict(jdf="jdf/expr.jdf", cls="T"),    # parameter defined by an expression of an earlier parameter
    "lidx": dict(jdf="jdf/lidx.jdf", cls="T"),    # parameters defined through local indices (sparse domains)
}

_gen_cache = {}


def _definition(clean, src, fname):
    """(start of the line holding the definition's name, offset of '{', offset of matching '}') of the unique
    file-scope definition of fname."""
    hits = []
    for m in re.finditer(r"\b" + re.escape(fname) + r"\s*\(", clean):
        i = m.end() - 1; depth = 0
        while i < len(clean):
            if clean[i] == "(":
                depth += 1
            elif clean[i] == ")":
                depth -= 1
                if depth == 0:
                    break
            i += 1
        j = i + 1
        while j < len(clean) and clean[j] in " \t\n\r":
            j += 1
        if j < len(clean) and clean[j] == "{" and clean[:m.start()].count("{") == clean[:m.start()].count("}"):
            k = j; d = 0
            while k < len(clean):
                if clean[k] == "{":
                    d += 1
                elif clean[k] == "}":
                    d -= 1
                    if d == 0:
                        break
                k += 1
            hits.append((clean.rfind("\n", 0, m.start()) + 1, j, k))
    if len(hits) != 1:
        raise vlib.Undecided("cut: definition of %s found %d times in the generated unit" % (fname, len(hits)))
    return hits[0]


def _cut(gen_c, name, cls, out):
    """Mechanical cut of the generated unit: prelude + make_key + the two key_print + the min/max part of internal_init."""
    src = open(gen_c).read()
    src = re.sub(r"(?m)^#line .*$", "", src)
    clean = vlib.strip_comments_keep_layout(src)
    marker = "static inline parsec_key_t __jdf2c_make_key_"
    first = clean.find(marker)
    if first < 0:
        raise vlib.Undecided("cut: no make_key function in %s" % gen_c)
    parts = ["/* cut mechanically from %s by spec/C23/spec.py */\n" % os.path.basename(gen_c), src[:first]]
    for fn in ("__jdf2c_make_key_%s" % cls, "__jdf2c_key_fns_%s_key_print" % cls,
               "%s_%s_%s_internal_init_deps_key_functions_key_print" % (name, name, cls)):
        s, b, e = _definition(clean, src, fn)
        parts.append(src[s:e + 1] + "\n")
    s, b, e = _definition(clean, src, "%s_%s_internal_init" % (name, cls))
    last = None
    for m in re.finditer(r"__parsec_tp->%s_\w+_range\s*=[^;]*;" % re.escape(cls), clean[b:e]):
        last = m
    if last is None:
        raise vlib.Undecided("cut: internal_init of %s assigns no %s_<p>_range" % (name, cls))
    stop = b + last.end()
    if clean[b:stop].count("{") - clean[b:stop].count("}") != 1:
        raise vlib.Undecided("cut: the range assignments of %s_%s_internal_init are not at the top level of its body" % (name, cls))
    if not re.search(r"__parsec_tp->%s_\w+_min\s*=" % re.escape(cls), clean[b:stop]):
        raise vlib.Undecided("cut: internal_init of %s assigns no %s_<p>_min" % (name, cls))
    parts.append(src[s:stop] + "\n  return 0;\n}\n")
    open(out, "w").write("".join(parts))


def _generate():
    """Build ptgpp from REPO's sources, translate the corpus, cut; returns {corpus name: path of the cut file}."""
    if "cuts" in _gen_cache:
        return _gen_cache["cuts"]
    R = vlib.REPO
    B = vlib.build_dir()
    if B is None:
        raise vlib.Undecided("no build directory")
    base = os.path.join(os.environ.get("VERIF_TMP", "/tmp"), ".vscratch", str(os.getpid()))
    os.makedirs(base, exist_ok=True)
    d = tempfile.mkdtemp(prefix="c23gen-", dir=base)
    srcs = [os.path.join(R, PC, f) for f in ("jdf.c", "jdf2c.c", "jdf_unparse.c")] + \
           [os.path.join(B, PC, f) for f in ("parsec.y.c", "parsec.l.c")]
    cmd = ["gcc", "-O0", "-w", "-DBUILDING_PARSEC", "-D_GNU_SOURCE", "-DNDEBUG", "-std=gnu11",
           "-I" + os.path.join(R, PC), "-I" + B + "/parsec/include", "-I" + B, "-I" + R + "/parsec/include", "-I" + R,
           "-I" + os.path.join(B, PC)] + srcs + ["-o", os.path.join(d, "ptgpp"), "-lm", B + "/parsec/libparsec-base.a"]
    r = subprocess.run(cmd, capture_output=True, text=True, timeout=600)
    if r.returncode != 0:
        raise vlib.Undecided("building ptgpp from %s failed: %s" % (R, r.stderr[-500:]))
    cuts = {}
    for key, c in CORPUS.items():
        name = "c23_" + key
        path = os.path.join(R, c["jdf"][5:]) if c["jdf"].startswith("repo:") else os.path.join(HERE, c["jdf"])
        if not os.path.exists(os.path.join(d, name + ".c")):
            r = subprocess.run([os.path.join(d, "ptgpp"), "-E", "-i", path, "-o", name, "-f", name],
                               cwd=d, capture_output=True, text=True, timeout=120)
            if r.returncode != 0 or not os.path.exists(os.path.join(d, name + ".c")):
                raise vlib.Undecided("ptgpp failed on %s: %s" % (c["jdf"], (r.stdout + r.stderr)[-500:]))
        out = os.path.join(d, "%s_%s_cut.h" % (name, c["cls"]))
        _cut(os.path.join(d, name + ".c"), name, c["cls"], out)
        cuts[key] = out
    _gen_cache["cuts"] = cuts
    return cuts



# --------------------------------------------------------------------------------------------------------------
# enumerated boxes.  rsets[tier]: per parameter (parameter-list order) the list of concrete ranges; the h_key jobs take
# the product.  init[tier]: shapes (S0,S1,S2,S3) of the JDF globals as interpreted by the glue header (extents / steps);
# each shape's ranges must fall into rsets (obligation internal_init.inv.range_is_one_of_the_enumerated_ranges).
# split: None, or which print obligations fail on the unchanged tree and are therefore kept in jobs of their own.
# --------------------------------------------------------------------------------------------------------------
R = lambda a, b: list(range(a, b + 1))
BOX = {
    "one":  dict(rsets=dict(quick=[R(1, 6)], thorough=[R(1, 8)]), fold=True,
                 init=dict(quick=[(1,), (3,), (6,)], thorough=[(s,) for s in R(1, 8)])),
    "tri":  dict(rsets=dict(quick=[R(1, 4), R(1, 4)], thorough=[R(1, 8), R(1, 8)]),
                 init=dict(quick=[(1, 1), (2, 4), (4, 3), (3, 1)],
                           thorough=[(a, b) for a in (1, 2, 5, 8) for b in (1, 3, 6, 8)])),
    "step": dict(rsets=dict(quick=[R(1, 3), R(1, 3), R(1, 3)], thorough=[R(1, 4), R(1, 4), R(1, 4)]),
                 init=dict(quick=[(2, 3, 2, 1), (1, 2, 3, 2), (2, 1, 2, -1), (3, 3, 1, -2)],
                           thorough=[(2, 4, 3, 1), (1, 2, 4, 2), (3, 1, 2, -1), (4, 3, 1, -2), (4, 4, 1, 3), (2, 2, 3, -3),
                                     (1, 1, 1, 1), (3, 4, 2, 2)])),
    "four": dict(rsets=dict(quick=[R(1, 2)] * 4, thorough=[R(1, 3)] * 4), split="order",
                 init=dict(quick=[(2, 2, 2, 2), (1, 2, 1, 1), (2, 1, 2, 2)],
                           thorough=[(3, 3, 3, 3), (1, 2, 1, 1), (2, 1, 3, 2), (3, 2, 2, 3), (1, 1, 1, 1)])),
    "expr": dict(rsets=dict(quick=[R(1, 3), [1], R(1, 3)], thorough=[R(1, 6), [1], R(1, 6)]), split="print",
                 init=dict(quick=[(3, 1, 3), (1, 1, 2)], thorough=[(6, 1, 6), (1, 1, 1), (4, 1, 5), (2, 1, 3)])),
    "lidx": dict(rsets=dict(quick=[R(1, 3), [5], [5, 6]], thorough=[R(1, 7), [5], R(5, 8)]),
                 init=dict(quick=[(1, 1, 5), (2, 1, 6), (2, 1, 5)],
                           thorough=[(1, 1, 5), (2, 1, 6), (3, 1, 7), (4, 1, 8), (2, 1, 5), (4, 1, 6)])),
}
FOLD = 4
SPLIT_ENUM = 3      # tuples used for an obligation that is kept in its own jobs because it fails on the unchanged tree


def jobs(tier):
    full = tier == "thorough"
    J = []
    try:
        cuts = _generate()
    except Exception as e:   # a pipeline that cannot be built never counts as a pass
        return [Job("generate", "h_key.c", entry="h_generation_failed_%s" % re.sub(r"\W", "_", str(e))[:80], timeout=60)]
    for key, c in CORPUS.items():
        J += _jobs_for(key, c, cuts[key], tier)
    return J


def _jobs_for(key, c, cut, tier):
    box = BOX[key]
    rsets = box["rsets"][tier]
    cls = c["cls"]
    base = {"GEN_CUT": '"%s"' % cut, "GLUE": '"g_%s.h"' % key}
    fns_key = ["__jdf2c_make_key_%s" % cls, "__jdf2c_key_fns_%s_key_print" % cls,
               "c23_%s_c23_%s_%s_internal_init_deps_key_functions_key_print" % (key, key, cls)]
    box_txt = " x ".join("{%s}" % ",".join(map(str, r)) for r in rsets)
    bnd = "corpus entry %s.jdf class %s; ranges enumerated: %s; minima symbolic in +-2^20" % (key, cls, box_txt)
    J = []

    def keyjob(name, tup, what, minob):
        d = dict(base); d["WHAT"] = what
        for p, r in enumerate(tup):
            lo, hi = (r, r) if isinstance(r, int) else r
            d["R%dLO" % p] = lo; d["R%dHI" % p] = hi
        folded = any(not isinstance(r, int) and r[0] != r[1] for r in tup)
        return Job(name, "h_key.c", entry="h_key", defines=d, unwind=40, functions=fns_key, timeout=600, mem_gb=2,
                   min_obligations=minob, canaries=2, bounded=bnd, solver="kissat" if folded else None)

    # the first parameter's ranges are folded, at most FOLD consecutive values per process (disjoint paths inside the
    # harness; measured: 3-4 instances per process with kissat cost about half of separate processes, more do not pay)
    def chunks(vals, n):
        out = []
        for v in vals:
            if out and v == out[-1][1] + 1 and out[-1][1] - out[-1][0] + 1 < n:
                out[-1] = (out[-1][0], v)
            else:
                out.append((v, v))
        return out
    if box.get("fold"):
        tuples = [tuple((min(r), max(r)) for r in rsets)]
    else:
        tuples = [(c0,) + rest for rest in itertools.product(*rsets[1:]) for c0 in chunks(rsets[0], FOLD)]
    split = box.get("split")
    what_main = {None: 7, "order": 3, "print": 1}[split]
    for t in tuples:
        tag = "x".join(str(r if isinstance(r, int) else "%d-%d" % r) for r in t)
        J.append(keyjob("key.%s.%s.r%s" % (key, cls, tag), t, what_main, 2))
    if split and not os.environ.get("VERIF_C23_SKIP_FINDINGS"):
        # the obligations that fail on the unchanged tree (findings), on a few tuples, in jobs of their own
        pick = [tuples[-1], tuples[len(tuples) // 2], tuples[0]][:SPLIT_ENUM]
        for t in pick:
            tag = "x".join(str(r if isinstance(r, int) else "%d-%d" % r) for r in t)
            J.append(keyjob("%s.%s.%s.r%s" % (split, key, cls, tag), t, 7 - what_main, 1))
    for sh in box["init"][tier]:
        d = dict(base)
        for i, s in enumerate(sh):
            d["S%d" % i] = "(%d)" % s
        for p, r in enumerate(rsets):
            d["RSET%d" % p] = sum(1 << v for v in r)
            d["RSETTOP%d" % p] = max(r)
        J.append(Job("init.%s.%s.s%s" % (key, cls, "_".join(str(s).replace("-", "m") for s in sh)), "h_key.c", entry="h_init",
                     defines=d, unwind=max(abs(s) for s in sh) + 2,
                     unwindset={"h_init.0": 7, "h_init.1": 5, "h_init.2": 5}, functions=["c23_%s_%s_internal_init" % (key, cls)],
                     timeout=300, mem_gb=4,
                     min_obligations=3,
                     bounded="corpus entry %s.jdf class %s; shape of the globals (extents/steps) %s concrete, lower bounds symbolic "
                             "in +-2^20" % (key, cls, sh)))
    return J


META = dict(
    level="other",
    functions=["__jdf2c_make_key_<CLASS> (generated; jdf2c.c: jdf_generate_hashfunction_for)",
               "__jdf2c_key_fns_<CLASS>_key_print and <jdf>_<jdf>_<CLASS>_internal_init_deps_key_functions_key_print "
               "(generated; jdf2c.c: jdf_generate_deps_key_functions)",
               "<jdf>_<CLASS>_internal_init, min/max part (generated; jdf2c.c: jdf_generate_internal_init, need_min_max)"],
    explanation="The PTG compiler is rebuilt on every run from $VERIF_REPO's jdf.c / jdf2c.c / jdf_unparse.c (parser tables and "
                "libparsec-base.a from the existing build) and run on a corpus of JDFs (spec/C23/jdf: 1-4 parameters, symbolic negative "
                "bounds, constant and global steps of either sign, descending ranges, inner ranges depending on outer parameters and "
                "on derived locals, a parameter defined by an expression, parameters defined through local indices, locals defined in "
                "another order than the parameter list).  make_key, both key_print functions and the min/max part of internal_init "
                "are cut by name out of the generated unit and put under contract (harness route): (init) for every point g of the "
                "execution space -- written per JDF from the JDF text -- internal_init leaves min_p <= g_p < min_p + range_p (range "
                "parameters, local indices) resp. min 0 / range 1 (expression parameters), and each range is one of those enumerated "
                "by the key jobs; (key) under that invariant, for two symbolic points, equal keys imply equal parameters; (print) "
                "key_print(make_key(a)) calls snprintf once with the format '<CLASS>(%d, ...)' and the values of a, in parameter "
                "order.  Ranges (multipliers / divisors) are enumerated concretely, one cbmc process per tuple; minima, lower bounds "
                "of the globals and the points are symbolic (+-2^20).",
    trusted_base=["snprintf replaced (macro, inside the cut only) by a capturing stub: records the format pointer and the first NP int "
                  "arguments; the text formatting of libc itself is not checked",
                  "rank_of of the data collection used by the affinity predicate: stub answering one symbolic rank",
                  "the mechanical cut (spec.py _cut): prelude up to the first make_key + the named functions verbatim; internal_init is "
                  "cut after its last '<CLASS>_<p>_range =' statement and closed with 'return 0; }'",
                  "execution-space predicates spec_in_space()/spec_derived() in g_<jdf>.h, written by hand from the JDF text",
                  "parser/lexer tables parsec.y.c / parsec.l.c are taken from the existing build directory (not regenerated)"],
    assumptions=["the taskpool's <CLASS>_<p>_min/_range fields are written only by internal_init and internal_init has completed before "
                 "any key of the class is computed (startup protocol: C16)",
                 "minima and symbolic lower bounds lie in +-2^20 (no 32-bit overflow in max - min + 1)",
                 "task-class locals hold the values the JDF defines (expression parameters equal their expression)"],
)

MANIFEST = dict(
    category="other",
    text="Corpus x enumerated box: for each JDF of a small corpus the generated make_key / key_print / internal_init(min-max) of the "
         "compiler built from the working tree are put under contract and discharged by CBMC, one process per concrete tuple of "
         "ranges, with symbolic minima, bounds and points: internal_init's ranges contain every point of the execution space, equal "
         "keys imply equal parameters, and key_print prints the parameter values in parameter order.  'other' because the JDFs are a "
         "corpus and the ranges an enumerated box, not the property's whole domain.",
    note="Two print obligations fail on the unchanged tree and are kept in jobs of their own (order.four.*, print.expr.*; see "
         "known findings): key_print lists the values in the order the locals are DEFINED, not in parameter-list order, and decodes "
         "a parameter defined by a plain expression as 0 (min 0 / range 1), which also shifts the parameters after it.  Uniqueness "
         "holds in both cases.  NOT decided: JDFs outside the corpus; ranges outside the enumerated tuples (incl. 64-bit wrap of the product for huge "
         "spaces, and all-negative ranges whose minimum lies below -(largest enumerated range): the generator starts the maximum at 0, "
         "so such a parameter gets range 1-min); user-defined make_key / hash structs; libc's formatting.",
    technique="contracts (pre/post, ghost point, two-point lemma) on generated code cut by name, compiler rebuilt per run, CBMC 6.11, "
              "ranges enumerated one process per tuple",
    design_ref="DESIGN.md section 5, C23")
