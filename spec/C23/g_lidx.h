/* glue for jdf/lidx.jdf, class T(o, e, n):  o = [ i = 0 .. NI ] 2*i+OB;  e = [ i = -1 .. 1 ] 2*i;  n = e .. NN */
#define NP 3
typedef __parsec_c23_lidx_internal_taskpool_t c23_tp_t;
typedef __parsec_c23_lidx_T_parsec_assignment_t c23_as_t;
typedef __parsec_c23_lidx_T_task_t c23_task_t;
#define MAKE_KEY       __jdf2c_make_key_T
#define KEY_PRINT      __jdf2c_key_fns_T_key_print
#define KEY_PRINT_DEPS c23_lidx_c23_lidx_T_internal_init_deps_key_functions_key_print
#define INIT_MINMAX    c23_lidx_T_internal_init
#define CLASS_FMT      "T(%d, %d, %d)"
static const int KIND[NP] = { RANGED, RANGED, RANGED };
static const int DEFORD[NP] = { 0, 1, 2 };
static int *tp_min(c23_tp_t *t, int p)   { return p == 0 ? &t->T_o_min : p == 1 ? &t->T_e_min : &t->T_n_min; }
static int *tp_range(c23_tp_t *t, int p) { return p == 0 ? &t->T_o_range : p == 1 ? &t->T_e_range : &t->T_n_range; }
static void as_set(c23_tp_t *t, c23_as_t *as, const int32_t *g) { (void)t; as->o.value = g[0]; as->e.value = g[1]; as->n.value = g[2]; }
static void glue_globals_symbolic(c23_tp_t *t) { t->super._g_OB = vin.base[0]; t->super._g_NI = vin.base[1]; t->super._g_NN = vin.base[2]; }
/* shape: o takes the S0 values OB, OB+2, ... (OB symbolic); e in {-2, 0, 2}; n = e .. S2-3 (S1 unused) */
static void glue_globals_shape(c23_tp_t *t)
{
    t->super._g_OB = vin.base[0]; t->super._g_NI = S0 - 1; t->super._g_NN = S2 - 3;
}
static int spec_derived(c23_tp_t *t, const int32_t *g) { (void)t; (void)g; return 1; }
static int spec_in_space(c23_tp_t *t, const int32_t *g)
{
    int32_t d = g[0] - t->super._g_OB;
    return 0 <= d && d <= 2 * t->super._g_NI && d % 2 == 0
        && (g[1] == -2 || g[1] == 0 || g[1] == 2) && g[1] <= g[2] && g[2] <= t->super._g_NN;
}
