/* C23: PTG task keys identify task instances uniquely, and the printed form of a key names the parameter values.
 *
 * Functions under contract: GENERATED code, produced on every run by the PTG compiler that spec.py builds from
 * $VERIF_REPO/parsec/interfaces/ptg/ptg-compiler/{jdf.c,jdf2c.c,jdf_unparse.c} and runs on a JDF of the corpus
 * (spec/C23/jdf/, tests/dsl/ptg/local-indices):
 *     __jdf2c_make_key_<CLASS>                                   (jdf2c.c: jdf_generate_hashfunction_for)
 *     __jdf2c_key_fns_<CLASS>_key_print and the deps-table copy  (jdf2c.c: jdf_generate_deps_key_functions)
 *     <jdf>_<CLASS>_internal_init, up to and including the assignments of <CLASS>_<p>_min/_range
 *                                                                (jdf2c.c: jdf_generate_internal_init, need_min_max)
 * They are cut BY NAME out of the generated translation unit (spec.py: _cut; nothing is rewritten; the cut of
 * internal_init ends after the last "<CLASS>_<p>_range = ...;" statement and gets "return 0; }") together with the
 * unit's prelude (includes, taskpool structure, macros of the globals and of the predicate) = file GEN_CUT.
 *
 * Decomposition (DESIGN 5, C23):
 *   INV(tp) :=  for every point g of the execution space and every parameter p
 *                 ranged parameter (range or local indices):   min_p <= g_p < min_p + range_p
 *                 parameter defined by a plain expression:      min_p == 0, range_p == 1   (g_p is a function of the
 *                                                               parameters defined before it: JDF semantics)
 *   h_init :  internal_init establishes INV          (execution space: spec_in_space(), written from the JDF text)
 *   h_key  :  under INV, key(a) == key(b) => a == b   (two-point lemma);
 *             under INV, key_print(make_key(a)) prints the class name and the values of a, in parameter order
 * Ranges are enumerated concretely (RkLO..RkHI: -D fixes one value, or a disjoint-path loop inside the process;
 * symbolic * symbolic does not finish), minima / bases / points are symbolic.
 */
#include "verif.h"
#include <stdarg.h>
#include <stdio.h>
#include <stdint.h>
#include <stddef.h>
#include "parsec.h"
#include "parsec/parsec_internal.h"
#include "parsec/execution_stream.h"
#include "parsec/data_distribution.h"

/* snprintf as called by the generated key_print: captures the format and the integer arguments */
#define C23_NPMAX 4
static const char *g_fmt;
static int g_printed[C23_NPMAX];
static int g_print_calls;
static int c23_nparam(void);
static int c23_snprintf(char *buf, size_t n, const char *fmt, ...)
{
    va_list ap;
    (void)n;
    g_fmt = fmt; g_print_calls++;
    va_start(ap, fmt);
    for (int i = 0; i < C23_NPMAX; i++)
        if (i < c23_nparam()) g_printed[i] = va_arg(ap, int);
    va_end(ap);
    if (n > 0) buf[0] = 0;
    return 0;
}
#define snprintf c23_snprintf
#include GEN_CUT
#undef snprintf

#define RANGED 0   /* parameter defined by a range or through local indices */
#define EXPR   1   /* parameter defined by a plain expression of earlier locals */
#define BASEMAX (1 << 20)

struct vin {
    int32_t min[C23_NPMAX];      /* h_key / h_print: <CLASS>_<p>_min                                    */
    int32_t a[C23_NPMAX], b[C23_NPMAX];   /* two points (parameter-list order)                          */
    int32_t rsel[C23_NPMAX];     /* selects the concrete range tuple inside the process                 */
    int32_t base[6];             /* h_init: symbolic lower bounds (JDF globals); h_key/h_print: globals */
    int32_t g[C23_NPMAX];        /* h_init: ghost point of the execution space                          */
    int32_t junk[2 * C23_NPMAX]; /* h_init: previous content of the min / range fields                   */
    uint32_t myrank, rank;       /* affinity predicate: rank_of answers `rank`                          */
} vin;
#include "verif_vin.h"

static parsec_data_collection_t g_dc;
static uint32_t h_rank_of(parsec_data_collection_t *d, ...) { (void)d; return vin.rank; }

#ifndef S0
#define S0 1
#endif
#ifndef S1
#define S1 1
#endif
#ifndef S2
#define S2 1
#endif
#ifndef S3
#define S3 1
#endif
/* glue of the corpus entry: types, field access by parameter index, the JDF's semantics (spec side) */
#include GLUE
static int c23_nparam(void) { return NP; }

#ifndef R0LO
#define R0LO 1
#define R0HI 1
#endif
#ifndef R1LO
#define R1LO 1
#define R1HI 1
#endif
#ifndef R2LO
#define R2LO 1
#define R2HI 1
#endif
#ifndef R3LO
#define R3LO 1
#define R3HI 1
#endif

static c23_tp_t tp;
static c23_as_t asA, asB;

/* INV as precondition: fields of the taskpool (ranges concrete, minima symbolic), points inside the box */
static void assume_inv_and_point(const int R[C23_NPMAX], const int32_t *a)
{
    for (int p = 0; p < NP; p++) {
        if (KIND[p] == RANGED) {
            V_ASSUME(vin.min[p] >= -BASEMAX && vin.min[p] <= BASEMAX);
            *tp_min(&tp, p) = vin.min[p];
            *tp_range(&tp, p) = R[p];
            V_ASSUME(a[p] >= vin.min[p] && a[p] < vin.min[p] + R[p]);
        } else {
            *tp_min(&tp, p) = 0;
            *tp_range(&tp, p) = 1;
        }
    }
    V_ASSUME(spec_derived(&tp, a));      /* expression parameters have the value of their expression */
}

static int fmt_is(const char *s)
{
    if (g_fmt == NULL) return 0;
    for (int i = 0; i < 32; i++) {
        if (g_fmt[i] != s[i]) return 0;
        if (s[i] == 0) return 1;
    }
    return 0;
}

/* ------------------------------------------------------------------ */
/* h_key: obligations selected by WHAT                                   */
/*   1  two-point lemma on the real make_key                             */
/*   2  printing: format, decode(make_key(a)) gives back the values      */
/*   4  printing: the values appear in parameter-list order              */
/* ------------------------------------------------------------------ */
#ifndef WHAT
#define WHAT 7
#endif

static void print_one(parsec_key_t key, int which)
{
    static char buf[64];
    g_print_calls = 0; g_fmt = NULL;
    for (int i = 0; i < C23_NPMAX; i++) g_printed[i] = 0x7fffffff;
    char *r = which ? KEY_PRINT_DEPS(buf, sizeof(buf), key, &tp) : KEY_PRINT(buf, sizeof(buf), key, &tp);
    int inv = 1, ord = 1;
    for (int j = 0; j < NP; j++) {
        if (g_printed[j] != vin.a[DEFORD[j]]) inv = 0;
        if (g_printed[j] != vin.a[j]) ord = 0;
    }
#if WHAT & 2
    V_ASSERT(r == buf && g_print_calls == 1, "C23.key_print.post.prints_once_into_the_buffer_and_returns_it");
    V_ASSERT(fmt_is(CLASS_FMT), "C23.key_print.post.format_is_class_name_and_one_integer_per_parameter");
    V_ASSERT(inv, "C23.key_print.post.decoding_inverts_make_key__values_in_definition_order");
#endif
#if WHAT & 4
    V_ASSERT(ord, "C23.key_print.post.printed_values_are_the_parameters_in_parameter_list_order");
#endif
    (void)r; (void)inv; (void)ord;
}

static void key_body(const int R[C23_NPMAX])
{
    glue_globals_symbolic(&tp);
    assume_inv_and_point(R, vin.a);
    as_set(&tp, &asA, vin.a);
    parsec_key_t ka = MAKE_KEY((const parsec_taskpool_t *)&tp, (const parsec_assignment_t *)&asA);
#if WHAT & 1
    assume_inv_and_point(R, vin.b);
    as_set(&tp, &asB, vin.b);
    parsec_key_t kb = MAKE_KEY((const parsec_taskpool_t *)&tp, (const parsec_assignment_t *)&asB);
    int same = 1;
    for (int p = 0; p < NP; p++) if (vin.a[p] != vin.b[p]) same = 0;
    V_ASSERT(V_IMPLIES(ka == kb, same), "C23.make_key.lemma.equal_keys_imply_equal_parameters");
    V_ASSERT(V_IMPLIES(same, ka == kb), "C23.make_key.post.key_is_a_function_of_the_parameters");
#endif
#if WHAT & 6
    print_one(ka, 0);
    print_one(ka, 1);
#endif
    V_CANARY("key_body");
}

void h_key(void)
{
    vin_load();
    tp.super._g_descA = (void *)&g_dc;
    for (int r0 = R0LO; r0 <= R0HI; r0++)
    for (int r1 = R1LO; r1 <= R1HI; r1++)
    for (int r2 = R2LO; r2 <= R2HI; r2++)
    for (int r3 = R3LO; r3 <= R3HI; r3++)
        if (vin.rsel[0] == r0 && vin.rsel[1] == r1 && vin.rsel[2] == r2 && vin.rsel[3] == r3) {
            int R[C23_NPMAX] = { r0, r1, r2, r3 };
            key_body(R);
        }
    V_CANARY("h_key");
}

/* ------------------------------------------------------------------ */
/* internal_init (min/max part) establishes INV                          */
/* ------------------------------------------------------------------ */
/* RSETp: bit r set <=> range r of parameter p is among the tuples enumerated by the h_key jobs of this tier */
#ifndef RSET0
#define RSET0 2
#endif
#ifndef RSET1
#define RSET1 2
#endif
#ifndef RSET2
#define RSET2 2
#endif
#ifndef RSET3
#define RSET3 2
#endif
#ifndef RSETTOP0
#define RSETTOP0 1
#endif
#ifndef RSETTOP1
#define RSETTOP1 1
#endif
#ifndef RSETTOP2
#define RSETTOP2 1
#endif
#ifndef RSETTOP3
#define RSETTOP3 1
#endif
static const uint32_t RSET[C23_NPMAX] = { RSET0, RSET1, RSET2, RSET3 };
static const int RTOP[C23_NPMAX] = { RSETTOP0, RSETTOP1, RSETTOP2, RSETTOP3 };
static c23_task_t g_task;

void h_init(void)
{
    vin_load();
    for (int i = 0; i < 6; i++) V_ASSUME(vin.base[i] >= -BASEMAX && vin.base[i] <= BASEMAX);
    glue_globals_shape(&tp);          /* concrete extents S0..S3 (and steps), symbolic bases vin.base[] */
    g_dc.myrank = vin.myrank;
    g_dc.rank_of = h_rank_of;
    tp.super._g_descA = (void *)&g_dc;
    for (int p = 0; p < NP; p++) { *tp_min(&tp, p) = vin.junk[2 * p]; *tp_range(&tp, p) = vin.junk[2 * p + 1]; }
    g_task.taskpool = (parsec_taskpool_t *)&tp;

    INIT_MINMAX(NULL, &g_task);

    V_ASSUME(spec_in_space(&tp, vin.g));          /* ghost point of the execution space (JDF semantics) */
    for (int p = 0; p < NP; p++) {
        int mn = *tp_min(&tp, p), rg = *tp_range(&tp, p);
        if (KIND[p] == RANGED) {
            V_ASSERT(mn <= vin.g[p], "C23.internal_init.post.min_le_every_point_of_the_space");
            V_ASSERT((int64_t)vin.g[p] < (int64_t)mn + rg, "C23.internal_init.post.every_point_lt_min_plus_range");
            /* composition with h_key: the range is one of those enumerated there (the generator starts the maximum
             * at 0: an all-negative range gets range = 1 - min, which leaves the box when min <= -(largest range)) */
            V_ASSERT(rg >= 1 && ((rg < 32 && ((RSET[p] >> rg) & 1)) || mn <= -RTOP[p]),
                     "C23.internal_init.inv.range_is_one_of_the_enumerated_ranges_unless_min_below_minus_box");
        } else {
            V_ASSERT(mn == 0 && rg == 1, "C23.internal_init.inv.expression_parameter_has_min_0_range_1");
        }
    }
    V_CANARY("h_init");
}
