/* glue for jdf/expr.jdf, class T(k, m, n):  k = KB .. NK;  m = k + 1;  n = 0 .. NN */
#define NP 3
typedef __parsec_c23_expr_internal_taskpool_t c23_tp_t;
typedef __parsec_c23_expr_T_parsec_assignment_t c23_as_t;
typedef __parsec_c23_expr_T_task_t c23_task_t;
#define MAKE_KEY       __jdf2c_make_key_T
#define KEY_PRINT      __jdf2c_key_fns_T_key_print
#define KEY_PRINT_DEPS c23_expr_c23_expr_T_internal_init_deps_key_functions_key_print
#define INIT_MINMAX    c23_expr_T_internal_init
#define CLASS_FMT      "T(%d, %d, %d)"
static const int KIND[NP] = { RANGED, EXPR, RANGED };
static const int DEFORD[NP] = { 0, 1, 2 };
static int *tp_min(c23_tp_t *t, int p)   { return p == 0 ? &t->T_k_min : p == 1 ? &t->T_m_min : &t->T_n_min; }
static int *tp_range(c23_tp_t *t, int p) { return p == 0 ? &t->T_k_range : p == 1 ? &t->T_m_range : &t->T_n_range; }
static void as_set(c23_tp_t *t, c23_as_t *as, const int32_t *g) { (void)t; as->k.value = g[0]; as->m.value = g[1]; as->n.value = g[2]; }
static void glue_globals_symbolic(c23_tp_t *t) { t->super._g_KB = vin.base[0]; t->super._g_NK = vin.base[1]; t->super._g_NN = vin.base[2]; }
/* shape: k: S0 values from the symbolic base; n = 0 .. S2-1 (S1 unused: m is not a range) */
static void glue_globals_shape(c23_tp_t *t)
{
    t->super._g_KB = vin.base[0]; t->super._g_NK = vin.base[0] + S0 - 1; t->super._g_NN = S2 - 1;
}
static int spec_derived(c23_tp_t *t, const int32_t *g) { (void)t; return g[1] == g[0] + 1; }
static int spec_in_space(c23_tp_t *t, const int32_t *g)
{
    return t->super._g_KB <= g[0] && g[0] <= t->super._g_NK && g[1] == g[0] + 1 && 0 <= g[2] && g[2] <= t->super._g_NN;
}
