/* glue for jdf/four.jdf, class T(a, b, c, d):  b = B0 .. B1;  a = A0 .. A1;  c = b .. C1;  d = -1 .. D1
 * (locals defined in the order b, a, c, d) */
#define NP 4
typedef __parsec_c23_four_internal_taskpool_t c23_tp_t;
typedef __parsec_c23_four_T_parsec_assignment_t c23_as_t;
typedef __parsec_c23_four_T_task_t c23_task_t;
#define MAKE_KEY       __jdf2c_make_key_T
#define KEY_PRINT      __jdf2c_key_fns_T_key_print
#define KEY_PRINT_DEPS c23_four_c23_four_T_internal_init_deps_key_functions_key_print
#define INIT_MINMAX    c23_four_T_internal_init
#define CLASS_FMT      "T(%d, %d, %d, %d)"
static const int KIND[NP] = { RANGED, RANGED, RANGED, RANGED };
static const int DEFORD[NP] = { 1, 0, 2, 3 };
static int *tp_min(c23_tp_t *t, int p)   { return p == 0 ? &t->T_a_min : p == 1 ? &t->T_b_min : p == 2 ? &t->T_c_min : &t->T_d_min; }
static int *tp_range(c23_tp_t *t, int p) { return p == 0 ? &t->T_a_range : p == 1 ? &t->T_b_range : p == 2 ? &t->T_c_range : &t->T_d_range; }
static void as_set(c23_tp_t *t, c23_as_t *as, const int32_t *g) { (void)t; as->a.value = g[0]; as->b.value = g[1]; as->c.value = g[2]; as->d.value = g[3]; }
static void glue_globals_symbolic(c23_tp_t *t)
{
    t->super._g_A0 = vin.base[0]; t->super._g_A1 = vin.base[1]; t->super._g_B0 = vin.base[2];
    t->super._g_B1 = vin.base[3]; t->super._g_C1 = vin.base[4]; t->super._g_D1 = vin.base[5];
}
/* shape: a: S0 values from base[0]; b: S1 values from base[1]; c = b .. C1 with C1 = B0 + S2 - 1; d = -1 .. S3-2 */
static void glue_globals_shape(c23_tp_t *t)
{
    t->super._g_A0 = vin.base[0]; t->super._g_A1 = vin.base[0] + S0 - 1;
    t->super._g_B0 = vin.base[1]; t->super._g_B1 = vin.base[1] + S1 - 1;
    t->super._g_C1 = vin.base[1] + S2 - 1;
    t->super._g_D1 = S3 - 2;
}
static int spec_derived(c23_tp_t *t, const int32_t *g) { (void)t; (void)g; return 1; }
static int spec_in_space(c23_tp_t *t, const int32_t *g)
{
    return t->super._g_A0 <= g[0] && g[0] <= t->super._g_A1 && t->super._g_B0 <= g[1] && g[1] <= t->super._g_B1
        && g[1] <= g[2] && g[2] <= t->super._g_C1 && -1 <= g[3] && g[3] <= t->super._g_D1;
}
