/* C13 composition lemma: run the CONTRACTS (c13_spec.h: spec_sends = postcondition of parsec_remote_dep_activate,
 * spec_outgoing = postcondition of parsec_gather_collective_pattern, spec_packed = selection of
 * remote_dep_mpi_pack_dep) at the root and at every process that was handed an activation, for every number of
 * processes np in 2..8, every topology, every non-empty mask of <= 3 outputs and EVERY family of destination sets
 * (3 x 7 symbolic bits).  No repository code is executed here: the contracts are discharged against the real code
 * by the jobs of h_rdep.c (spec_packed is read off remote_dep_mpi_pack_dep and is an assumption).  The root does not appear (rank<->position is a bijection, job bitrank).
 *
 * Meta step: a process runs parsec_remote_dep_propagate -> activate once per activation message it receives
 * (remote_dep_release_incoming), the root runs activate once.  "activated" below is therefore computed as the
 * least fixed point: position 0, plus every position that an activated position sends to.  Because a parent has a
 * smaller position than its child (obligation parent_precedes_child), one pass in increasing order computes it.
 */
#include "verif.h"
#include "c13_spec.h"

struct vin {
    int32_t  np;
    uint32_t mask;
    uint32_t d[C13_NOUT];
    uint8_t  topo;
    uint8_t  rootcons;                  /* bit k: the root itself consumes output k */
} vin;
#include "verif_vin.h"

#ifndef PAYLOAD_ONLY
#define PAYLOAD_ONLY 0
#endif

void h_lemma(void)
{
    vin_load();
    int np = vin.np, topo = vin.topo;
    uint32_t mask = vin.mask;
    V_ASSUME(np >= 2 && np <= C13_NPMAX);
#ifdef TOPO
    V_ASSUME(topo == TOPO);
#else
    V_ASSUME(topo >= 0 && topo <= 2);
#endif
    V_ASSUME(mask != 0 && mask < (1u << C13_NOUT));
    uint32_t all = ((1u << np) - 1u) & ~1u;
    for (int k = 0; k < C13_NOUT; k++) {
        V_ASSUME((vin.d[k] & ~all) == 0);
        if ((mask >> k) & 1u) V_ASSUME(vin.d[k] != 0);
    }

    /* The root evaluates its contract on the sets it recorded (remote consumers only, parsec_release_dep_fct); a
     * forwarder evaluates its contract on the sets REBUILT by parsec_gather_collective_pattern, which contain the
     * root's own position 0 whenever the root consumes the output. */
    uint32_t dr[C13_NOUT];
    for (int k = 0; k < C13_NOUT; k++) dr[k] = vin.d[k] | ((vin.rootcons >> k) & 1u);
#define DSET(q) ((q) == 0 ? vin.d : dr)
#ifdef NESTFREE
    /* restricted domain on which chain / binomial do deliver every payload: the destination sets of two outputs
     * of the mask are either disjoint or equal (then a forwarder in the tree of first(b) holds whatever b consumes) */
    for (int k = 0; k < C13_NOUT; k++)
        for (int j = 0; j < C13_NOUT; j++)
            if (k < j && ((mask >> k) & 1u) && ((mask >> j) & 1u))
                V_ASSUME((vin.d[k] & vin.d[j]) == 0 || vin.d[k] == vin.d[j]);
#endif
    int activated[C13_NPMAX], recv[C13_NPMAX], from[C13_NPMAX];
    activated[0] = 1; recv[0] = 0; from[0] = -1;
    /* pass 1: who runs activate (least fixed point, increasing positions) */
    for (int b = 1; b < C13_NPMAX; b++) {
        activated[b] = 0; from[b] = -1;
        for (int q = 0; q < C13_NPMAX; q++)
            if (q < b && b < np && activated[q] && spec_sends(topo, mask, DSET(q), np, q, b)) { activated[b] = 1; from[b] = q; }
    }
    /* pass 2: count the activations handed to each position by ALL activated positions */
    for (int b = 0; b < C13_NPMAX; b++) {
        recv[b] = 0;
        for (int q = 0; q < C13_NPMAX; q++)
            if (q < np && b < np && q != b && activated[q] && spec_sends(topo, mask, DSET(q), np, q, b)) {
                recv[b]++;
#if !PAYLOAD_ONLY
                V_ASSERT(q < b, "C13.composition.lemma.parent_precedes_child");
#endif
            }
    }
    for (int b = 0; b < C13_NPMAX; b++) {
        if (b >= np) continue;
        int dest = (b >= 1) && spec_first(mask, vin.d, b) >= 0;     /* b consumes at least one output of the mask */
#if !PAYLOAD_ONLY
        {
            V_ASSERT(V_IMPLIES(dest, recv[b] == 1), "C13.composition.lemma.every_destination_receives_exactly_one_activation");
            V_ASSERT(V_IMPLIES(!dest, recv[b] == 0), "C13.composition.lemma.non_destinations_and_the_root_receive_none");
            V_ASSERT(V_IMPLIES(dest, activated[b] && from[b] >= 0 && from[b] < b), "C13.composition.lemma.every_destination_is_reached");
        }
#endif
        if (!dest || from[b] < 0) continue;
        int q = from[b];                                             /* the unique sender */
        for (int k = 0; k < C13_NOUT; k++) {
            int consumes = ((mask >> k) & 1u) && ((vin.d[k] >> b) & 1u);
            int packed = spec_packed(mask, DSET(q), q, k, b);
#if !PAYLOAD_ONLY
            {
                V_ASSERT(V_IMPLIES(packed, consumes), "C13.composition.lemma.no_payload_for_an_output_the_destination_does_not_consume");
                if (k == spec_first(mask, vin.d, b))
                    V_ASSERT(packed, "C13.composition.lemma.payload_of_the_first_output_is_delivered");
            }
#else
            {
                /* THE property clause: the destination receives the payload of EVERY output whose set contains it
                 * (at most once follows from exactly one message, each output packed at most once per message) */
                V_ASSERT(V_IMPLIES(consumes, packed), "C13.composition.lemma.every_consumed_output_payload_is_delivered");
            }
#endif
        }
    }
    V_CANARY("h_lemma");
}
