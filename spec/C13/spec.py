import atexit, os, shutil, tempfile
from vlib import Job, REPO

ACT = "parsec_remote_dep_activate"

META = dict(
    level="other",
    functions=["remote_dep_rank_to_bit", "remote_dep_bit_to_rank",
               "remote_dep_bcast_star_child", "remote_dep_bcast_chainpipeline_child", "remote_dep_bcast_binomial_child",
               "remote_dep_reset_forwarded", "remote_dep_mark_forwarded", "remote_dep_is_forwarded",
               "parsec_gather_collective_pattern", ACT, "remote_deps_free", "remote_deps_allocate"],
    explanation="Contracts on the real parsec/remote_dep.c / remote_dep.h, harness route (V_ASSUME pre; call; V_ASSERT post), vocabulary in "
                "spec/C13/c13_spec.h (position b = (rank-root) mod np; first(b) = first output of the mask whose set contains b; idx(b) = "
                "canonical order of b inside the tree of first(b); parent(topo,idx)).  Leaves: rank<->(bank,bit) mutually inverse and equal to "
                "the position, for every np in 1..4096, root, rank (symbolic, one query); each topology predicate child(me,him) <=> me == "
                "parent(him) with 0 <= parent(him) < him for all 32-bit me >= -1, him >= 1 (32-iteration loop unwound completely), the spec "
                "side parent characterised loop-free (him minus its largest power of two); forwarded mask = a set of ranks (two-word mask); "
                "parsec_gather_collective_pattern adds the destination's position, keeps count_bits = cardinality, and sets the output's bit "
                "in outgoing_mask exactly when the destination is this process.  parsec_remote_dep_activate (one job per np in 2..8 and "
                "topology; root, executing rank, propagation mask over 3 outputs, the three destination sets, payload/control flags, "
                "initial pending_ack and stale forwarded-mask content all symbolic; every loop unwound completely): this process hands an "
                "activation to rank r exactly once <=> r is its child in the tree of r's first output (spec_sends), never to itself or the "
                "root, one outgoing_message_start per send immediately before it, the message carries the root's mask and the task identity, "
                "destination sets / root / outgoing_mask unchanged, each held payload retained once, pending_ack grows by one unit per send, "
                "the runtime-action unit is taken once by the root.  Composition lemma (h_lemma.c, no repository code: the contracts are "
                "run at the root and at every activated process, np in 2..8, all topologies, all masks, ALL families of 3 destination sets "
                "= 21 symbolic bits): every destination receives exactly one activation, non-destinations none, parents precede children, "
                "no payload is packed for an output the destination does not consume, the payload of the first output is always delivered. "
                "Descriptor life cycle (job recycle, real remote_deps_free / remote_deps_allocate / parsec_lifo_push / _pop): invariant 'the "
                "descriptor is clean' = every output[k], k < max_dep_count (4 = all elements of the harness object), has count_bits 0 and "
                "an all-zero destination set (two words), masks and pending_ack 0.  free: from ANY state a finished task can leave (each "
                "output independently unused or used with arbitrary set, gaps included; root / priorities / preferred_device arbitrary) the "
                "descriptor is clean and on its free list; allocate (recycling path) hands out that descriptor, clean, root -1, taskpool "
                "NULL.  Clean is the precondition under which gather's contract (set |= position, count_bits = cardinality) makes the sets "
                "exactly those recorded for the new task, the starting point of the activate contract and of the lemma.  "
                "The clause 'the destination receives the payload of EVERY output whose set contains it' is its own job per topology "
                "(lemma.payload.*): it holds for the star, and FAILS for chain and binomial (genuine defect, see MANIFEST note); on the "
                "restricted domain 'sets pairwise disjoint or equal' it holds for all three (lemma.payload_nestfree.*).",
    trusted_base=["stub remote_dep_dequeue_send: records the destination in ghost g_sent[rank] (delivery of a handed-over activation exactly once "
                  "is the communication engine's job, C14)",
                  "stub behind tp->tdm.module->outgoing_message_start: records the destination, returns 1 ('the message can go now'); the "
                  "delayed path (return 0, the termination detector sends later) is not examined",
                  "stub parsec_taskpool_update_runtime_nbtask: ghost counter",
                  "the trailing array output[1] of parsec_remote_deps_t is seen with 4 elements: spec.py hdr4() generates, at check time, a copy "
                  "of $VERIF_REPO/parsec/remote_dep.h in which only that declared length is changed (anchor must match exactly once) and puts "
                  "it first on the quote-include path; this models the over-allocation done by remote_deps_allocate (CBMC cannot index behind "
                  "a declared [1], and a byte-array object makes the query explode).  Native replay uses the unmodified header and calloc.",
                  "--bounds-check is off in the jobs that touch output[] (pointer checks stay on); rank_bits / forwarded mask are reached "
                  "through pointers and are covered by --pointer-check",
                  "remote_dep_complete_and_cleanup's release branch (pending_ack reaches 0) is unreachable under the contract's precondition; "
                  "its loops are unwound once and their unwinding assertions are discharged (so no cut path is feasible)",
                  "job recycle: the free list starts empty with head NULL as PARSEC_OBJ_CONSTRUCT(parsec_lifo_t) leaves it (written by the "
                  "harness); no other thread touches the free list between the push and the pop (CAS loops succeed at once: their "
                  "unwinding assertions are discharged); the FRESH-allocation path of remote_deps_allocate (empty free list: "
                  "parsec_lifo_item_alloc + memset + output wiring) is not examined -- it needs the byte-level object that CBMC cannot "
                  "combine with the typed output[4] view",
                  "meta-steps: (i) the canonical order is the same at every process because every process walks the same sets "
                  "(iterate_successors of generated code is deterministic: C02/C05), (ii) induction on the position from the lemma's "
                  "obligations to 'every destination is reached exactly once'"],
    assumptions=["selection of remote_dep_mpi_pack_dep (output k's payload is packed for peer p <=> k in outgoing_mask and p in rank_bits[k]) "
                 "is READ from remote_dep_mpi.c:1397-1399 and used as spec_packed in the lemma; it is not discharged against the code here",
                 "on the ROOT a destination set contains only remote processes (parsec_release_dep_fct records dst_rank != src_rank); on a forwarder the root's own position may be present (rebuilt by parsec_gather_collective_pattern for successors living on the root; symbolic in the activate jobs and in the lemma); every output of the mask has at least one remote consumer "
                 "for every output of the mask; count_bits equals the set's cardinality on entry (kept by h_gather's contract)",
                 "between allocate and activate the root's sets are filled by parsec_release_dep_fct (parsec.c) with the same 'set |= position, "
                 "count_bits++ if new' step as parsec_gather_collective_pattern (whose contract is discharged); parsec_release_dep_fct itself "
                 "is not under contract here",
                 "pending_ack is 0 when the root starts activate and >= 1 at a forwarder (unit taken by remote_dep_release_incoming); "
                 "concurrent completion of sends by the communication thread while activate is still running is not modelled "
                 "(lifetime of the deps object is another property)",
                 "a forwarder's rank_bits / outgoing_mask are those rebuilt by parsec_gather_collective_pattern from the same sets as the "
                 "root's (h_gather's contract, composed by hand in spec_outgoing)",
                 "np <= 8 processes and <= 3 outputs per collective (the property's own domain); one 32-bit word of rank bits in activate "
                 "(np <= 32); np = 1 has no remote destination and never calls activate (the code asserts nb_nodes > 1)"],
)

_HDR = {}


def hdr4():
    """A copy of the real remote_dep.h whose ONLY change is the declared length of parsec_remote_deps_t.output ([1] -> [4])."""
    if "d" in _HDR:
        return _HDR["d"]
    src = open(os.path.join(REPO, "parsec/remote_dep.h")).read()
    anchor = "struct remote_dep_output_param_s output[1];"
    d = tempfile.mkdtemp(prefix="c13-hdr-")
    atexit.register(shutil.rmtree, d, True)
    if src.count(anchor) == 1:      # otherwise: no file, the harness' _Static_assert fails to compile -> undecided
        os.makedirs(os.path.join(d, "parsec"))
        open(os.path.join(d, "parsec/remote_dep.h"), "w").write(
            src.replace(anchor, "struct remote_dep_output_param_s output[4];"))
    _HDR["d"] = d
    return d


def act_unwindset(np_):
    return {"parsec_remote_dep_activate.0": 3, "parsec_remote_dep_activate.6": np_ + 1, "parsec_remote_dep_activate.7": 2,
            "parsec_remote_dep_activate.8": 4, "remote_dep_bcast_binomial_child.0": 33, "spec_popcount.0": 33,
            "spec_first.0": 4, "spec_idx.0": 9, "spec_outgoing.0": 4, "h_activate.0": 4, "h_activate.1": 4,
            "h_activate.2": np_ + 1, "h_activate.3": 4, "setup_common.0": 4}


TOPO = {0: "star", 1: "chain", 2: "binomial"}


def jobs(tier):
    full = tier == "thorough"
    H = ["-iquote", hdr4()]
    PC = ("--pointer-check",)
    J = [
        Job("bitrank", "h_rdep.c", entry="h_bitrank", unwind=2, solver="kissat", timeout=900, extra_cc=H,
            functions=["remote_dep_rank_to_bit", "remote_dep_bit_to_rank"], min_obligations=7),
        Job("child", "h_rdep.c", entry="h_child", unwind=34, timeout=300, extra_cc=H,
            functions=["remote_dep_bcast_star_child", "remote_dep_bcast_chainpipeline_child", "remote_dep_bcast_binomial_child"],
            min_obligations=6),
        Job("forwarded", "h_rdep.c", entry="h_forwarded", unwind=5, extra_cc=H, checks=PC, timeout=300,
            functions=["remote_dep_reset_forwarded", "remote_dep_mark_forwarded", "remote_dep_is_forwarded"], min_obligations=5),
        Job("gather", "h_rdep.c", entry="h_gather", unwind=34, defines={"NP": 8}, extra_cc=H, checks=PC, timeout=300,
            functions=["parsec_gather_collective_pattern"], min_obligations=5),
        # descriptor life cycle: free (any subset of outputs in use, gaps included) -> clean -> allocate (recycling) -> clean
        Job("recycle", "h_rdep.c", entry="h_recycle", unwind=1, extra_cc=H, checks=PC, timeout=300,
            unwindset={"h_recycle.0": 5, "h_recycle.1": 5, "h_recycle.2": 5, "clean_descriptor.0": 3, "clean_descriptor.1": 5,
                       "setup_common.0": 4, "remote_deps_free.0": 5, "remote_deps_free.1": 5, "remote_deps_free.2": 5,
                       "remote_deps_free.3": 5, "spec_popcount.0": 33},
            functions=["remote_deps_free", "remote_deps_allocate"], min_obligations=12),
        Job("lemma.composition", "h_lemma.c", entry="h_lemma", unwind=9, functions=[], timeout=600, min_obligations=6),
    ]
    for t in (0, 1, 2):
        # the property's payload clause, one job per topology: chain / binomial are expected to FAIL (known finding)
        J.append(Job("lemma.payload.%s" % TOPO[t], "h_lemma.c", entry="h_lemma", unwind=9, functions=[], timeout=600,
                     defines={"PAYLOAD_ONLY": 1, "TOPO": t}, min_obligations=1))
        if t:
            J.append(Job("lemma.payload_nestfree.%s" % TOPO[t], "h_lemma.c", entry="h_lemma", unwind=9, functions=[], timeout=600,
                         defines={"PAYLOAD_ONLY": 1, "TOPO": t, "NESTFREE": 1}, min_obligations=1))
    nps = (2, 3, 4, 5, 6, 7, 8) if full else (3, 4, 5)
    for n in nps:
        for t in (0, 1, 2):
            if not full and n == 4 and t == 0:
                continue
            J.append(Job("activate.np%d.%s" % (n, TOPO[t]), "h_rdep.c", entry="h_activate", unwind=1, unwindset=act_unwindset(n),
                         defines={"NP": n, "TOPO": t, "DTD": 0}, extra_cc=H, checks=PC,
                         solver="kissat" if n >= 6 else None, timeout=1500 if n >= 7 else 600, mem_gb=4,
                         bounded=None if full else "quick tier: activate's contract for np in 3..5 (thorough: 2..8 = the property's domain)",
                         functions=[ACT], min_obligations=18))
    # DTD taskpools always use the star, whatever topology is configured
    for n in ((4, 8) if full else (4,)):
        J.append(Job("activate.np%d.dtd" % n, "h_rdep.c", entry="h_activate", unwind=1, unwindset=act_unwindset(n),
                     defines={"NP": n, "TOPO": 2, "DTD": 1}, extra_cc=H, checks=PC,
                     solver="kissat" if n >= 6 else None, timeout=1500 if n >= 7 else 600, mem_gb=4,
                     bounded=None if full else "quick tier: np = 4 only",
                     functions=[ACT], min_obligations=18))
    return J


MANIFEST = dict(
    category="other",
    text="Contract-based check of the propagation logic of collective activations on the real remote_dep.c: every obligation of the "
         "contracts of the rank<->bit mapping (np <= 4096), the three topology predicates (all 32-bit arguments), the forwarded mask, "
         "parsec_gather_collective_pattern and parsec_remote_dep_activate (np 2..8 x 3 topologies x all roots, executing ranks, masks "
         "and families of 3 destination sets; quick tier np 3..5, labelled bounded) is discharged by CBMC, and the composition lemma "
         "proves over the whole domain that every destination is handed exactly one activation and no payload it does not consume. "
         "Level 'other' and not 'proof': the property's payload clause does NOT hold on the unchanged tree for chain (the default) and "
         "binomial topologies (isolated in jobs lemma.payload.chain / lemma.payload.binomial, natively reproduced), and the pack "
         "selection of remote_dep_mpi_pack_dep enters as a read-off assumption.",
    note="FINDING (genuine, natively reproduced with spec/C13/native/run.sh): with nested destination sets, e.g. output A -> ranks {1,2}, "
         "output B -> rank {2}, root 0, chain topology (runtime_comm_coll_bcast=1, the default): rank 2 is reached through rank 1 in A's "
         "tree; rank 1's outgoing_mask lacks B, so B's payload is not packed; rank 2 then requests B from rank 1, which aborts in "
         "MPI_Isend (invalid datatype) -- RB(2) never runs.  Binomial: A -> {1,2,3}, B -> {3}, 4 ranks: RB(3) never runs, the job hangs. "
         "Star: correct.  NOT decided: remote_dep_mpi_pack_dep's selection against the code; the receiver side (remote_dep_get_datatypes / "
         "release_incoming) that turns one message into one propagate call; delayed sends (outgoing_message_start returning 0); "
         "interference of the communication thread on pending_ack during activate; more than one 32-bit word of rank bits in activate "
         "(np > 32) and more than 3 outputs; real MPI runs are only the two reproductions, not a sampled campaign.",
    technique="function contracts (harness route) + ghost state on the real remote_dep.c, complete unwinding, composition lemma over the "
              "contracts, CBMC 6.11 (MiniSat / kissat)",
    design_ref="DESIGN.md section 5, C13")
