/* C13: specification vocabulary shared by the contract harness (h_rdep.c) and by the composition
 * lemma (h_lemma.c).  Nothing in this file is taken from the repository: it is the SPEC side.
 *
 * Everything is written in the "relative" numbering of a collective: position b = (rank - root + np) % np, so the
 * root is position 0 and the other processes are positions 1..np-1 (remote_dep_rank_to_bit gives exactly this
 * number, split into bank/bit; job bitrank.* proves rank<->position mutually inverse on the real code).
 *
 *   d[k]   destination set of output k (bit b set <=> position b consumes output k), k < C13_NOUT
 *   mask   the outputs taking part in the collective (the propagation mask = outgoing_mask of the root)
 *   topo   0 star, 1 chain, 2 binomial  (runtime_comm_coll_bcast)
 *
 *   first(b)  = the smallest k in mask with b in d[k]          ("the output in which b first appears"), -1 if none
 *   idx(b)    = 1 + #{ b' in 1..b-1 : first(b') == first(b) }   (canonical order inside the tree of first(b))
 *   parent(topo,h) for h >= 1: star 0, chain h-1, binomial h with its most significant 1-bit cleared
 *   sends(q,b): process at position q hands an activation for position b to the engine
 *        q == 0 (root):  first(b) >= 0 and parent(idx(b)) == 0
 *        q >= 1       :  first(b) >= 0 and first(q) == first(b) and parent(idx(b)) == idx(q)
 *   outgoing(q) = mask for the root, { k in mask : q in d[k] } for a forwarder (what parsec_gather_collective_pattern
 *        rebuilds: outgoing_mask gets bit k exactly when the forwarder itself is a destination of output k)
 *   packed(q,k,b) = k in outgoing(q) and b in d[k]             (selection of remote_dep_mpi_pack_dep, read off remote_dep_mpi.c:1397-1399: an ASSUMPTION, not discharged)
 */
#ifndef C13_SPEC_H
#define C13_SPEC_H
#include <stdint.h>

#ifndef C13_NOUT
#define C13_NOUT  3
#endif
#define C13_NPMAX 8

static int spec_parent(int topo, int him)
{
    if (topo == 0) return 0;
    if (topo == 1) return him - 1;
    /* binomial: clear the most significant 1-bit; written without the code's loop: the largest power of two <= him */
    {
        uint32_t h = (uint32_t)him, p = h;
        p |= p >> 1; p |= p >> 2; p |= p >> 4; p |= p >> 8; p |= p >> 16;   /* all bits below the top bit set */
        p = p ^ (p >> 1);                                                   /* only the top bit                */
        return (int)(h ^ p);
    }
}

static int spec_first(uint32_t mask, const uint32_t *d, int b)
{
    for (int k = 0; k < C13_NOUT; k++)
        if (((mask >> k) & 1u) && ((d[k] >> b) & 1u)) return k;
    return -1;
}

static int spec_idx(uint32_t mask, const uint32_t *d, int np, int b)
{
    int f = spec_first(mask, d, b), n = 1;
    (void)np;
    for (int c = 1; c < C13_NPMAX; c++)
        if (c < b && spec_first(mask, d, c) == f) n++;
    return n;
}

static int spec_sends(int topo, uint32_t mask, const uint32_t *d, int np, int q, int b)
{
    int f = spec_first(mask, d, b);
    if (b < 1 || b >= np || f < 0) return 0;
    if (q == 0) return spec_parent(topo, spec_idx(mask, d, np, b)) == 0;
    if (spec_first(mask, d, q) != f) return 0;
    return spec_parent(topo, spec_idx(mask, d, np, b)) == spec_idx(mask, d, np, q);
}

static uint32_t spec_outgoing(uint32_t mask, const uint32_t *d, int q)
{
    uint32_t o = 0;
    if (q == 0) return mask;
    for (int k = 0; k < C13_NOUT; k++)
        if (((mask >> k) & 1u) && ((d[k] >> q) & 1u)) o |= 1u << k;
    return o;
}

static int spec_packed(uint32_t mask, const uint32_t *d, int q, int k, int b)
{
    return (int)((spec_outgoing(mask, d, q) >> k) & 1u) && (int)((d[k] >> b) & 1u);
}

static int spec_popcount(uint32_t x)
{
    int n = 0;
    for (int b = 0; b < 32; b++) n += (int)((x >> b) & 1u);
    return n;
}
#endif
