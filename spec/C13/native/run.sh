#!/bin/bash
# Native demonstration of the C13 finding (not part of the check; the check is ./vcheck C13).
#   SRC on rank 0 produces A -> RA(1..NR) and B -> RB(NR) (NR = np-1): nested destination sets.
#   star (0): every consumer runs.  chain (1, THE DEFAULT) with np=3: rank 1 aborts in MPI_Isend (invalid datatype)
#   when rank 2 asks it for B, RB(2) never runs.  binomial (2) with np=4: RB(3) never runs, the job hangs.
set -u
W=$(mktemp -d /tmp/c13native.XXXX); cp "$(dirname "$0")"/c13.jdf "$(dirname "$0")"/main.c $W; cd $W
B=${VERIF_BUILD:-/repo/_build}; R=${VERIF_REPO:-/repo}
$B/parsec/interfaces/ptg/ptg-compiler/parsec-ptgpp -i c13.jdf -o c13 -f c13 >/dev/null 2>&1
mpicc -O0 -g -w -I. -I$B/parsec/include -I$B -I$R/parsec/include -I$R main.c c13.c -o c13test -L$B/parsec -lparsec -Wl,-rpath,$B/parsec -lpthread -lm || exit 2
export OMPI_ALLOW_RUN_AS_ROOT=1 OMPI_ALLOW_RUN_AS_ROOT_CONFIRM=1
for cfg in "3 0" "3 1" "4 0" "4 2"; do set -- $cfg
  echo "=== np=$1 runtime_comm_coll_bcast=$2"
  PARSEC_MCA_runtime_comm_coll_bcast=$2 timeout 40 mpiexec --oversubscribe -n $1 -x PARSEC_MCA_runtime_comm_coll_bcast ./c13test 2>&1 | grep -E "RB\(|MPI_ERR|An error" ; echo "exit=${PIPESTATUS[0]}"
done
cd /; rm -rf $W
