#include <stdlib.h>
#include <stdio.h>
#include <mpi.h>
#include "parsec/runtime.h"
#include "parsec/utils/debug.h"
#include "parsec/arena.h"
#include "parsec/data_dist/matrix/two_dim_rectangle_cyclic.h"
#include "c13.h"
int main(int argc, char *argv[])
{
    int rank, world, provided, rc;
    MPI_Init_thread(&argc, &argv, MPI_THREAD_SERIALIZED, &provided);
    MPI_Comm_size(MPI_COMM_WORLD, &world); MPI_Comm_rank(MPI_COMM_WORLD, &rank);
    parsec_context_t *parsec = parsec_init(1, &argc, &argv);
    if (!parsec) exit(1);
    int nb = 1, mt = world;
    parsec_matrix_block_cyclic_t *m = malloc(sizeof(*m));
    parsec_matrix_block_cyclic_init(m, PARSEC_MATRIX_INTEGER, PARSEC_MATRIX_TILE, rank, nb, nb, mt*nb, mt*nb, 0, 0, mt*nb, mt*nb, 1, world, 1, 1, 0, 0);
    m->mat = parsec_data_allocate((size_t)m->super.nb_local_tiles * (size_t)m->super.bsiz * (size_t)parsec_datadist_getsizeoftype(m->super.mtype));
    parsec_data_collection_set_key((parsec_data_collection_t *)m, "A");
    parsec_c13_taskpool_t *tp = parsec_c13_new(m, nb, world-1);
    parsec_arena_datatype_set_type(&tp->arenas_datatypes[PARSEC_c13_DEFAULT_ADT_IDX], nb*sizeof(int), PARSEC_ARENA_ALIGNMENT_SSE, parsec_datatype_int32_t);
    rc = parsec_context_add_taskpool(parsec, (parsec_taskpool_t*)tp); PARSEC_CHECK_ERROR(rc, "add");
    rc = parsec_context_start(parsec); PARSEC_CHECK_ERROR(rc, "start");
    rc = parsec_context_wait(parsec); PARSEC_CHECK_ERROR(rc, "wait");
    printf("[rank %d] taskpool complete\n", rank); fflush(stdout);
    parsec_taskpool_free((parsec_taskpool_t*)tp);
    parsec_fini(&parsec);
    MPI_Finalize();
    return 0;
}
