/* C13: collective activations reach each destination exactly once.
 * Contracts on the REAL parsec/remote_dep.c and parsec/remote_dep.h (included verbatim below; the static
 * functions of remote_dep.c are in scope of this translation unit).  Specification vocabulary: c13_spec.h.
 *
 * Entries
 *   h_bitrank     remote_dep_rank_to_bit / remote_dep_bit_to_rank are mutually inverse and give the position
 *                 (rank - root + np) % np, split as bank*32 + bit
 *   h_child       the three topology predicates: child(me, him) <=> me == parent(him), 0 <= parent(him) < him
 *                 (hence every him >= 1 has exactly one parent, which is closer to the root)
 *   h_forwarded   remote_dep_reset_forwarded / _mark_forwarded / _is_forwarded behave as a set of ranks
 *   h_gather      parsec_gather_collective_pattern (what a forwarder rebuilds): destination bit, count_bits,
 *                 outgoing_mask gets the output's bit exactly when the destination is this process
 *   h_activate    parsec_remote_dep_activate: who is handed an activation (ghost g_sent[rank]), bookkeeping
 */
#include "verif.h"
#define VERIF_RG_DEFAULT_HOOKS 1
#include "verif_rg.h"
#include "c13_spec.h"
#include "parsec/parsec_config.h"
#include "parsec/parsec_internal.h"
#include "parsec/remote_dep.h"
#include "parsec/scheduling.h"
#include "parsec/execution_stream.h"
#include "parsec/data_internal.h"
#include "parsec/mca/termdet/termdet.h"

#ifndef NP
#define NP 8                 /* number of processes of this job (the property's domain is 1..8) */
#endif
#ifndef NPSYM
#define NPSYM 4096           /* h_bitrank / h_forwarded: symbolic communicator sizes 1..NPSYM */
#endif
#define NBANKS ((NPSYM + 31) / 32)
#define RB 3                 /* words of the rank-bit arrays of the harness object (h_forwarded uses 2 of them) */

/* ---- ghost state filled by the stubs ---- */
static int g_sent[NP];        /* activations handed to the engine, per destination rank                  */
static int g_sent_bad;        /* a send to a rank outside [0,NP), or with a foreign deps / es              */
static int g_oms[NP];         /* calls of tdm.module->outgoing_message_start per destination               */
static int g_flying;          /* net effect on the taskpool's runtime actions                              */
static int g_order_bad;       /* outgoing_message_start(r) not immediately followed by the send to r       */
static int g_last_oms = -1;

#include "parsec/remote_dep.c"

struct vin {
    int32_t  np, root, rank, rank2;     /* h_bitrank, h_forwarded                                            */
    uint32_t bank, bit;
    int32_t  me, him;                   /* h_child                                                           */
    uint32_t fw0[RB];                   /* h_forwarded: arbitrary previous content of the forwarded mask     */
    /* h_activate / h_gather */
    int32_t  my_rank;
    uint32_t mask;                      /* propagation mask                                                  */
    uint32_t d[C13_NOUT];               /* destination sets, relative positions                              */
    uint8_t  topo, dtd;
    uint8_t  has_data[C13_NOUT];
    int32_t  pend0;
    uint32_t fwgarbage;
    uint32_t out_idx, dep_idx, count0, omask0, dmask0;
    int32_t  dst_rank, prio_new, prio_old, prio_max;
    /* h_recycle: the state a finished task leaves in the descriptor */
    uint32_t used_cnt[4];               /* count_bits per output, 0 = output not used by that task (gaps allowed) */
    uint32_t used_bits[4][2];           /* its destination sets                                               */
    int32_t  old_root, old_prio, old_maxprio, old_pdev[4];
    int64_t  lifo_counter;
} vin;
#include "verif_vin.h"

/* ---- stubs (trusted base) ---- */
static parsec_context_t            ctx;
static parsec_vp_t                 vp;
static parsec_execution_stream_t   es;
static parsec_taskpool_t           tp;
static parsec_task_class_t         tc;
static parsec_task_t               task;
static parsec_termdet_base_module_t tdm_module;
/* the object is laid out as remote_deps_allocate does: one block, output[] continues behind the declared [1] */
static parsec_remote_deps_t *DEPS;
static uint32_t rbits[C13_NOUT + 1][RB];
static uint32_t fwmask[RB];
static parsec_data_copy_t copies[C13_NOUT];

int remote_dep_dequeue_send(parsec_execution_stream_t *e, int rank, parsec_remote_deps_t *deps)
{
    if (rank < 0 || rank >= NP || deps != DEPS || e != &es) { g_sent_bad++; return 0; }
    if (g_last_oms != rank) g_order_bad++;
    g_last_oms = -1;
    g_sent[rank]++;
    return 1;
}
static int stub_outgoing_message_start(parsec_taskpool_t *t, int dst, parsec_remote_deps_t *deps)
{
    if (dst < 0 || dst >= NP || deps != DEPS || t != &tp) { g_sent_bad++; return 1; }
    g_oms[dst]++; g_last_oms = dst;
    return 1;                                   /* "the message can go now" (DESIGN: outgoing_message_start -> 1) */
}
int parsec_taskpool_update_runtime_nbtask(parsec_taskpool_t *t, int32_t n)
{
    if (t != &tp) g_sent_bad++;
    g_flying += n;
    return 0;
}

/* ------------------------------------------------------------------------------------------------------ */
void h_bitrank(void)
{
    vin_load();
    int np = vin.np, root = vin.root, rank = vin.rank;
    V_ASSUME(np >= 1 && np <= NPSYM);
#ifdef NPFIX
    V_ASSUME(np == NPFIX);
#endif
    V_ASSUME(root >= 0 && root < np && rank >= 0 && rank < np);
    parsec_remote_dep_context.max_nodes_number = (uint32_t)np;

    uint32_t bank = 0xdeadu, bit = 0xdeadu;
    remote_dep_rank_to_bit(rank, &bank, &bit, root);
    int pos = rank - root; if (pos < 0) pos += np;            /* (rank - root) mod np, division free */
    V_ASSERT(bit < 32, "C13.remote_dep_rank_to_bit.post.bit_below_32");
    V_ASSERT(bank < (uint32_t)((np + 31) / 32), "C13.remote_dep_rank_to_bit.post.bank_inside_mask_array");
    V_ASSERT(bank * 32 + bit == (uint32_t)pos, "C13.remote_dep_rank_to_bit.post.position_is_rank_minus_root_mod_np");
    V_ASSERT((bank == 0 && bit == 0) == (rank == root), "C13.remote_dep_rank_to_bit.post.root_is_position_0");

    int back = -7;
    remote_dep_bit_to_rank(&back, bank, bit, root);
    V_ASSERT(back == rank, "C13.remote_dep_bit_to_rank.post.inverse_of_rank_to_bit");

    /* the other direction: every position below np names a rank, and rank_to_bit gives the position back */
    uint32_t b2 = vin.bank, i2 = vin.bit;
    V_ASSUME(i2 < 32 && b2 < NBANKS && b2 * 32 + i2 < (uint32_t)np);
    int r2 = -7; uint32_t b3 = 0xdeadu, i3 = 0xdeadu;
    remote_dep_bit_to_rank(&r2, b2, i2, root);
    V_ASSERT(r2 >= 0 && r2 < np, "C13.remote_dep_bit_to_rank.post.rank_in_range");
    remote_dep_rank_to_bit(r2, &b3, &i3, root);
    V_ASSERT(b3 == b2 && i3 == i2, "C13.remote_dep_rank_to_bit.post.inverse_of_bit_to_rank");
    V_CANARY("h_bitrank");
}

/* ------------------------------------------------------------------------------------------------------ */
void h_child(void)
{
    vin_load();
    int me = vin.me, him = vin.him;
    V_ASSUME(him >= 1);                /* canonical indexes of destinations start at 1; 0 is the root         */
    V_ASSUME(me >= -1);                /* -1: "I do not know my own index (yet)"                               */

    /* the spec-side parent, characterised without loops: p = him minus the largest power of two <= him */
    int pb = spec_parent(2, him);
    int dd = him - pb;
    V_ASSERT(pb >= 0 && pb < him && dd > 0 && (dd & (dd - 1)) == 0 && pb < dd,
             "C13.spec_parent.lemma.binomial_parent_is_him_without_its_top_bit");

    for (int t = 0; t < 3; t++) {
        int p = spec_parent(t, him);
        int c = (t == 0) ? remote_dep_bcast_star_child(me, him)
              : (t == 1) ? remote_dep_bcast_chainpipeline_child(me, him)
              :            remote_dep_bcast_binomial_child(me, him);
        V_ASSERT(p >= 0 && p < him, "C13.remote_dep_bcast_child.post.parent_is_closer_to_root");
        if (t == 0)      V_ASSERT((c != 0) == (me == p), "C13.remote_dep_bcast_star_child.post.child_iff_me_is_root");
        else if (t == 1) V_ASSERT((c != 0) == (me == p), "C13.remote_dep_bcast_chainpipeline_child.post.child_iff_me_is_him_minus_1");
        else             V_ASSERT((c != 0) == (me == p), "C13.remote_dep_bcast_binomial_child.post.child_iff_me_is_him_without_top_bit");
        if (me == -1)    V_ASSERT(c == 0, "C13.remote_dep_bcast_child.post.unknown_index_has_no_child");
    }
    V_CANARY("h_child");
}

/* ------------------------------------------------------------------------------------------------------ */
static void setup_common(int np, int my_rank)
{
#ifndef VERIF_REPLAY
    /* Under CBMC the object is a typed static one.  remote_deps_allocate over-allocates the block so that output[] has
     * max_dep_count elements behind the declared [1]; CBMC's field-sensitive memory model cannot express that, and a
     * byte-array object makes the activate query explode (17 GB).  spec.py therefore puts a generated copy of
     * parsec/remote_dep.h in front of the include path in which ONLY the declared length of that trailing array is
     * changed from 1 to 4 (anchor checked; see spec.py hdr4()).  The static assertion fails to compile without it. */
    static parsec_remote_deps_t sdeps;
    _Static_assert(sizeof(sdeps.output) / sizeof(sdeps.output[0]) >= C13_NOUT, "needs the output[4] view of remote_dep.h (spec.py hdr4)");
    DEPS = &sdeps;
#else
    DEPS = (parsec_remote_deps_t *)calloc(1, sizeof(parsec_remote_deps_t) + C13_NOUT * sizeof(struct remote_dep_output_param_s));
#endif
    parsec_remote_dep_context.max_nodes_number = (uint32_t)np;
    parsec_remote_dep_context.max_dep_count = C13_NOUT;
    ctx.nb_nodes = np; ctx.my_rank = my_rank;
    ctx.remote_dep_fw_mask_sizeof = ((np + 31) / 32) * sizeof(uint32_t);
    vp.parsec_context = &ctx;
    es.virtual_process = &vp;
    DEPS->remote_dep_fw_mask = fwmask;
    for (int k = 0; k < C13_NOUT; k++) { DEPS->output[k].rank_bits = rbits[k]; DEPS->output[k].parent = DEPS; }
}

#ifndef FWNP
#define FWNP 40              /* two banks: a concrete size (memset of a symbolic size does not finish) */
#endif
void h_forwarded(void)
{
    vin_load();
    int np = FWNP, root = vin.root, r = vin.rank, r2 = vin.rank2;
    V_ASSUME(root >= 0 && root < np && r >= 0 && r < np && r2 >= 0 && r2 < np);
    setup_common(np, 0);
    DEPS->root = root;
    for (int a = 0; a < RB; a++) fwmask[a] = vin.fw0[a];

    int before_r2 = remote_dep_is_forwarded(&es, DEPS, r2);
    remote_dep_mark_forwarded(&es, DEPS, r);
    V_ASSERT(remote_dep_is_forwarded(&es, DEPS, r) == 1, "C13.remote_dep_mark_forwarded.post.marked_rank_is_forwarded");
    if (r2 != r)
        V_ASSERT(remote_dep_is_forwarded(&es, DEPS, r2) == before_r2, "C13.remote_dep_mark_forwarded.post.other_ranks_unchanged");
    remote_dep_reset_forwarded(&es, DEPS);
    V_ASSERT(remote_dep_is_forwarded(&es, DEPS, r2) == 0, "C13.remote_dep_reset_forwarded.post.no_rank_forwarded");
    V_ASSERT(remote_dep_is_forwarded(&es, DEPS, r) == 0, "C13.remote_dep_reset_forwarded.post.no_rank_forwarded_2");
    for (int a = (FWNP + 31) / 32; a < RB; a++)
        V_ASSERT(fwmask[a] == vin.fw0[a], "C13.remote_dep_reset_forwarded.post.writes_only_the_mask");
    V_CANARY("h_forwarded");
}

/* ------------------------------------------------------------------------------------------------------ */
/* Descriptor life cycle.  INVARIANT "the descriptor is clean": for every k < max_dep_count, output[k].count_bits == 0 and
 * every word of output[k].rank_bits is 0; outgoing_mask == incoming_mask == 0; pending_ack == 0.
 *   remote_deps_free      any used descriptor (every subset of outputs in use, gaps included)  ->  clean, on the free list
 *   remote_deps_allocate  (recycling path) hands out the descriptor of the free list, clean, root = -1
 *   clean is the precondition under which h_gather's / parsec_release_dep_fct's "set |= position, count_bits++" make
 *   rank_bits EXACTLY the destinations recorded for the new task, which is what h_activate and the lemma start from. */
#define RC_NP   40           /* two words of rank bits */
#define RC_MAXD 4            /* every element of output[] of the harness object */
static parsec_lifo_t rc_lifo;
static int clean_descriptor(const parsec_remote_deps_t *d)
{
    int ok = (d->outgoing_mask == 0) && (d->incoming_mask == 0) && (d->pending_ack == 0);
    for (int k = 0; k < RC_MAXD; k++) {
        ok = ok && (d->output[k].count_bits == 0);
        for (int a = 0; a < (RC_NP + 31) / 32; a++) ok = ok && (d->output[k].rank_bits[a] == 0);
    }
    return ok;
}
void h_recycle(void)
{
    vin_load();
    setup_common(RC_NP, 0);
    parsec_remote_dep_context.max_dep_count = RC_MAXD;
    DEPS->output[3].rank_bits = rbits[3]; DEPS->output[3].parent = DEPS;
    /* an empty free list, as PARSEC_OBJ_CONSTRUCT(parsec_lifo_t) leaves it (head NULL), any ABA counter */
    rc_lifo.lifo_head.data.item = NULL; rc_lifo.lifo_head.data.guard.counter = vin.lifo_counter;
    /* the state left by the task that used the descriptor: the code's own asserts in remote_deps_free as precondition */
    DEPS->origin = &rc_lifo; DEPS->taskpool = &tp;
    DEPS->pending_ack = 0; DEPS->incoming_mask = 0; DEPS->outgoing_mask = 0;
    DEPS->root = vin.old_root; DEPS->priority = vin.old_prio; DEPS->max_priority = vin.old_maxprio;
    for (int k = 0; k < RC_MAXD; k++) {
        uint32_t w0 = vin.used_bits[k][0], w1 = vin.used_bits[k][1] & ((1u << (RC_NP - 32)) - 1u);
        /* count_bits counts the set bits (kept by release_dep_fct / gather): in particular 0 <=> empty set */
        V_ASSUME(vin.used_cnt[k] == (uint32_t)(spec_popcount(w0) + spec_popcount(w1)));
        rbits[k][0] = w0; rbits[k][1] = w1;
        DEPS->output[k].count_bits = vin.used_cnt[k];
        DEPS->output[k].data.preferred_device = vin.old_pdev[k];
    }

    remote_deps_free(DEPS);

    V_ASSERT(DEPS->taskpool == NULL, "C13.remote_deps_free.post.taskpool_cleared");
    V_ASSERT(rc_lifo.lifo_head.data.item == (parsec_list_item_t *)DEPS, "C13.remote_deps_free.post.descriptor_is_on_its_free_list");
    for (int k = 0; k < RC_MAXD; k++) {
        V_ASSERT(DEPS->output[k].count_bits == 0, "C13.remote_deps_free.post.every_output_count_bits_is_0");
        V_ASSERT(rbits[k][0] == 0 && rbits[k][1] == 0, "C13.remote_deps_free.post.every_output_destination_set_is_empty");
        V_ASSERT(DEPS->output[k].rank_bits == rbits[k], "C13.remote_deps_free.post.rank_bits_pointers_kept");
    }
    V_ASSERT(clean_descriptor(DEPS), "C13.remote_deps_free.post.descriptor_is_clean");

    /* whatever else the previous user left behind must not survive the hand-out */
    parsec_remote_deps_t *d2 = remote_deps_allocate(&rc_lifo);

    V_ASSERT(d2 == DEPS, "C13.remote_deps_allocate.post.recycles_the_freed_descriptor");
    V_ASSERT(rc_lifo.lifo_head.data.item == NULL, "C13.remote_deps_allocate.post.descriptor_removed_from_the_free_list");
    V_ASSERT(clean_descriptor(d2), "C13.remote_deps_allocate.post.descriptor_is_clean_all_destination_sets_empty");
    V_ASSERT(d2->root == -1 && d2->taskpool == NULL && d2->max_priority == (int32_t)0xffffffff,
             "C13.remote_deps_allocate.post.root_unset_taskpool_unset_priority_reset");
    V_ASSERT(d2->pending_ack == 0 && d2->outgoing_mask == 0 && d2->incoming_mask == 0,
             "C13.remote_deps_allocate.post.counters_and_masks_are_0_as_activate_requires_at_the_root");
    for (int k = 0; k < RC_MAXD; k++)
        V_ASSERT(d2->output[k].rank_bits == rbits[k] && d2->output[k].parent == d2, "C13.remote_deps_allocate.post.outputs_still_wired");
    V_CANARY("h_recycle");
}

/* ------------------------------------------------------------------------------------------------------ */
void h_gather(void)
{
    vin_load();
    int np = NP, root = vin.root, me = vin.my_rank, dst = vin.dst_rank;
    V_ASSUME(root >= 0 && root < np && me >= 0 && me < np && dst >= 0 && dst < np);
    V_ASSUME(vin.out_idx < C13_NOUT && vin.dep_idx < 24);
    setup_common(np, me);
    static parsec_dep_t dep; static parsec_task_t newc;
    dep.dep_datatype_index = (uint8_t)vin.out_idx; dep.dep_index = (uint8_t)vin.dep_idx;
    newc.priority = vin.prio_new;
    struct remote_dep_output_param_s *o = &DEPS->output[vin.out_idx];
    uint32_t bits0 = vin.d[0] & ((1u << np) - 1u);
    rbits[vin.out_idx][0] = bits0;
    o->count_bits = vin.count0; o->deps_mask = vin.dmask0; o->priority = vin.prio_old;
    DEPS->outgoing_mask = vin.omask0; DEPS->max_priority = vin.prio_max; DEPS->root = root;
    V_ASSUME(vin.count0 == (uint32_t)spec_popcount(bits0));

    parsec_ontask_iterate_t rc = parsec_gather_collective_pattern(&es, &newc, &task, &dep, NULL, root, dst, 0, NULL, 0, DEPS);

    int pos = dst - root; if (pos < 0) pos += np;
    V_ASSERT(rc == PARSEC_ITERATE_CONTINUE, "C13.parsec_gather_collective_pattern.post.continues");
    V_ASSERT(rbits[vin.out_idx][0] == (bits0 | (1u << pos)), "C13.parsec_gather_collective_pattern.post.destination_position_added_to_the_output_set");
    V_ASSERT(o->count_bits == (uint32_t)spec_popcount(rbits[vin.out_idx][0]), "C13.parsec_gather_collective_pattern.post.count_bits_is_cardinality");
    V_ASSERT(DEPS->outgoing_mask == (vin.omask0 | (dst == me ? (1u << vin.out_idx) : 0u)),
             "C13.parsec_gather_collective_pattern.post.outgoing_mask_gets_output_iff_destination_is_me");
    V_ASSERT(DEPS->root == root, "C13.parsec_gather_collective_pattern.post.root_unchanged");
    V_CANARY("h_gather");
}

/* ------------------------------------------------------------------------------------------------------ */
void h_activate(void)
{
    vin_load();
    const int np = NP;
    int root = vin.root, me = vin.my_rank;
    uint32_t mask = vin.mask, all = ((1u << np) - 1u) & ~1u;     /* positions 1..np-1 */
    V_ASSUME(root >= 0 && root < np && me >= 0 && me < np);
    V_ASSUME(mask != 0 && mask < (1u << C13_NOUT));
#ifdef TOPO                      /* one job per topology: the indirect call then has a single target */
    const int vtopo = TOPO;
#else
    V_ASSUME(vin.topo <= 2);
    const int vtopo = vin.topo;
#endif
#ifdef DTD
    const int vdtd = DTD;
#else
    V_ASSUME(vin.dtd <= 1);
    const int vdtd = vin.dtd;
#endif
    int mpos = me - root; if (mpos < 0) mpos += np;              /* my position (0 = I am the root) */
    for (int k = 0; k < C13_NOUT; k++) {
        /* Position 0 (the root itself) in a destination set:
         *  - on the ROOT it is never set: parsec_release_dep_fct (parsec.c) records a destination only when
         *    dst_rank != src_rank -- precondition taken from there;
         *  - on a FORWARDER the sets are rebuilt by parsec_gather_collective_pattern, which is called for every
         *    successor, also for those living on the root: bit 0 is set exactly when the root consumes output k
         *    (symbolic here).
         * The property's trees are over the consuming ranks OTHER than the root, in the same order on every rank:
         * the spec side (c13_spec.h: first / idx / sends range over positions >= 1 only) never looks at bit 0, so the
         * real code has to skip the root wherever the bit is present in order to agree with it.
         * Every output of the mask has at least one REMOTE consumer (otherwise the root would not have put it in
         * its outgoing mask). */
        V_ASSUME((vin.d[k] & ~(all | 1u)) == 0);
        if (mpos == 0) V_ASSUME((vin.d[k] & 1u) == 0);
        if ((mask >> k) & 1u) V_ASSUME((vin.d[k] & all) != 0);
    }
    int topo = vdtd ? 0 : vtopo;                               /* DTD taskpools always use the star */

    setup_common(np, me);
    remote_dep_bcast_child = (vtopo == 0) ? remote_dep_bcast_star_child
                           : (vtopo == 1) ? remote_dep_bcast_chainpipeline_child
                           :                   remote_dep_bcast_binomial_child;
    tdm_module.outgoing_message_start = stub_outgoing_message_start;
    tp.tdm.module = &tdm_module;
    tp.taskpool_id = 77; tp.taskpool_type = vdtd ? PARSEC_TASKPOOL_TYPE_DTD : PARSEC_TASKPOOL_TYPE_PTG;
    tc.nb_locals = 2; tc.task_class_id = 5;
    task.taskpool = &tp; task.task_class = &tc;
    task.locals[0].value = 11; task.locals[1].value = 22;

    uint32_t out0 = spec_outgoing(mask, vin.d, mpos);            /* root: mask; forwarder: what h_gather rebuilds */
    DEPS->root = root;
    DEPS->outgoing_mask = out0;
    DEPS->taskpool = NULL;
    /* pending_ack when activate starts: 0 at the root (remote_deps_allocate), >= 1 at a forwarder
     * (remote_dep_release_incoming takes one unit before parsec_remote_dep_propagate) */
    V_ASSUME(mpos == 0 ? vin.pend0 == 0 : (vin.pend0 >= 1 && vin.pend0 <= 1000));
    DEPS->pending_ack = vin.pend0;
    fwmask[0] = vin.fwgarbage;                                   /* left over from the previous use of the object */
    for (int k = 0; k < C13_NOUT; k++) {
        rbits[k][0] = vin.d[k];
        DEPS->output[k].count_bits = (uint32_t)spec_popcount(vin.d[k]);
        DEPS->output[k].data.data = vin.has_data[k] ? &copies[k] : NULL;
        copies[k].super.super.obj_reference_count = 1;
    }

    int rc = parsec_remote_dep_activate(&es, &task, DEPS, mask);

    /* ---- the contract's postconditions ---- */
    V_ASSERT(rc == 0, "C13.parsec_remote_dep_activate.post.returns_0");
    V_ASSERT(g_sent_bad == 0, "C13.parsec_remote_dep_activate.post.sends_only_to_ranks_of_the_communicator_with_this_deps");
    V_ASSERT(g_order_bad == 0, "C13.parsec_remote_dep_activate.post.each_send_follows_its_outgoing_message_start");
    int n = 0;
    for (int b = 0; b < np; b++) {
        int rank = b + root; if (rank >= np) rank -= np;
        int exp = spec_sends(topo, mask, vin.d, np, mpos, b);
        n += g_sent[rank];
        V_ASSERT(g_sent[rank] <= 1, "C13.parsec_remote_dep_activate.post.no_rank_is_sent_twice");
        V_ASSERT(g_sent[rank] == exp, "C13.parsec_remote_dep_activate.post.sends_to_r_iff_r_is_my_child_in_the_tree_of_its_first_output");
        V_ASSERT(g_oms[rank] == g_sent[rank], "C13.parsec_remote_dep_activate.post.one_outgoing_message_start_per_send");
        if (exp) {
            int f = spec_first(mask, vin.d, b);
            V_ASSERT((out0 >> f) & 1u, "C13.parsec_remote_dep_activate.post.sender_holds_the_output_it_forwards_for");
        }
    }
    V_ASSERT(g_sent[root] == 0, "C13.parsec_remote_dep_activate.post.never_sends_to_the_root");
    V_ASSERT(g_sent[me] == 0, "C13.parsec_remote_dep_activate.post.never_sends_to_itself");
    if (mpos == 0) V_ASSERT(n >= 1, "C13.parsec_remote_dep_activate.post.root_sends_at_least_once");
    /* what the message will carry (packed later by remote_dep_mpi_pack_dep from these fields) */
    V_ASSERT(DEPS->msg.output_mask == mask, "C13.parsec_remote_dep_activate.post.message_carries_the_root_mask");
    V_ASSERT(DEPS->msg.deps == (uintptr_t)DEPS && DEPS->msg.taskpool_id == 77 && DEPS->msg.task_class_id == 5 &&
             DEPS->msg.locals[0].value == 11 && DEPS->msg.locals[1].value == 22 && DEPS->taskpool == &tp,
             "C13.parsec_remote_dep_activate.post.message_identifies_the_task");
    V_ASSERT(DEPS->root == root && DEPS->outgoing_mask == out0, "C13.parsec_remote_dep_activate.post.root_and_outgoing_mask_unchanged");
    for (int k = 0; k < C13_NOUT; k++) {
        V_ASSERT(rbits[k][0] == vin.d[k] && DEPS->output[k].count_bits == (uint32_t)spec_popcount(vin.d[k]),
                 "C13.parsec_remote_dep_activate.post.destination_sets_unchanged");
        int ret = (((mask & out0) >> k) & 1u) && vin.has_data[k];
        V_ASSERT(copies[k].super.super.obj_reference_count == 1 + ret,
                 "C13.parsec_remote_dep_activate.post.each_held_payload_retained_once");
    }
    /* bookkeeping: one unit of pending_ack per handed-over message (each is given back by the engine after the send) */
    V_ASSERT(DEPS->pending_ack == vin.pend0 + n, "C13.parsec_remote_dep_activate.post.pending_ack_balanced_one_unit_per_send");
    V_ASSERT(g_flying == ((vin.pend0 == 0 && n >= 1) ? 1 : 0), "C13.parsec_remote_dep_activate.post.runtime_action_taken_once_by_the_root");
    V_CANARY("h_activate");
}
