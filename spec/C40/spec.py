from vlib import Job

FUNCS = ["parsec_find_core_by_idx", "parsec_vpmap_init", "parsec_vpmap_init_from_flat", "parsec_vpmap_init_from_parameters", "parsec_vpmap_get_nb_vp",
         "parsec_vpmap_get_nb_total_threads", "parsec_vpmap_get_vp_threads", "parsec_vpmap_get_vp_thread_cores",
         "parsec_vpmap_get_vp_thread_affinity", "parsec_vpmap_fini"]
OUT = ["parsec_vpmap_init_from_file", "parsec_vpmap_init_from_hardware_affinity"]   # contracts with precondition false: proved unreachable
META = dict(
    level="other",
    functions=FUNCS,
    explanation="Partial decision of C40 on the real vpmap.c: for NULL, 'flat', '', 'display:flat', 'bogus', an enumerated list of malformed strings, and 'rr:' followed by anything sscanf does not "
                "convert into three integers, parsec_vpmap_init is memory safe (pointer and bounds checks on), creates exactly one "
                "virtual process with the requested number of threads (1..8, or -1 = all cores; machine of 1..8 cores), gives "
                "every thread exactly one binding range, inside the machine's cores and disjoint from the other threads' when the "
                "thread count does not exceed the core count; getters reject out-of-range queries; fini releases the map. "
                "For well-formed rr:n:p:c the obligations are taken from the property (n virtual processes of p threads, no crash).",
    trusted_base=["hwloc bitmap functions replaced by a ghost range record (alloc/free/set_range/singlify/or/intersects)",
                  "sscanf(\"rr:%d:%d:%d\") replaced by a stub yielding an arbitrary field count and arbitrary integers",
                  "parsec_hwloc_nb_real_cores stubbed as an arbitrary value in 1..8", "parsec_warning stubbed as a no-op",
                  "CBMC models of malloc/calloc/free/strncmp/strlen"],
    assumptions=["machine cores and thread counts bounded by 8 (loop unwinding); strings up to 7 characters"],
)
MANIFEST = dict(
    category="other",
    text="Pre/post contracts on the real vpmap.c discharged by CBMC with pointer/bounds checks for the flat, malformed and rr: "
         "specifications over bounded sizes (<= 8 cores / threads, strings <= 7 chars). Partial: a function-level gate, with the "
         "file: and hwloc back ends out of reach (externals).",
    note="Not decided: file:<rankfile> maps whose file CAN be opened (the parser: getline/strtok; several defects were observed there "
         "by a mutation sub-agent on the unchanged tree -- inverted NULL test on local_vpmap, uninitialised rest_of_line, a one-line file "
         "'0:3:0,2,4' segfaults -- none of them under contract) and hwloc maps (hwloc topology is external); decided for file: only "
         "the case 'the file cannot be opened' (fopen stub answers NULL) -> flat fallback; the actual thread binding done in "
         "parsec.c / bindthread.c, over-subscribed flat maps (more threads than cores: only thread counts and memory safety). "
         "The rr:n:p:c crash is a listed known finding.",
    technique="pre/post contracts on the real vpmap.c with ghost cpusets, CBMC pointer/bounds checks, complete unwinding over bounded sizes",
    design_ref="DESIGN.md section 5, C40")

# accepted without a warning: "flat..." (prefix test of the code), the empty string, and both behind "display:"
WELL_FORMED = {"flat", "", "display:flat", "display:"}
SPECS = ["flat", "", "bogus", "display:flat", "display", "display:", "flatland", "rr", "r", "fla", "file", "hwlo", "x:1:2:3", "-1", "FLAT"]

def jobs(tier):
    b = "cores/threads from an enumerated set (<= 8), specification strings from an enumerated list"
    sizes = [(2, 4), (-1, 2), (1, 1), (4, 4)] + ([(3, 8), (8, 8), (-1, 8), (8, 2)] if tier == "thorough" else [])
    J = []
    for (nbc, hwc) in sizes:
        d = {"NBC": "(%d)" % nbc, "HWC": hwc}
        tag = "t%s.c%d" % (str(nbc).replace("-", "m"), hwc)
        J.append(Job("init.null." + tag, "h_vpmap.c", entry="h_null", defines=d, unwind=10, bounded=b, functions=FUNCS, min_obligations=5))
        for f in (0, 1, 2):
            dd = dict(d); dd["RRF"] = f
            J.append(Job("init.rr_malformed.f%d.%s" % (f, tag), "h_vpmap.c", entry="h_rr_malformed", defines=dd, unwind=10, bounded=b, functions=FUNCS, min_obligations=5))
    for (nbc, hwc) in sizes[:2]:
        d = {"NBC": "(%d)" % nbc, "HWC": hwc}
        tag = "t%s.c%d" % (str(nbc).replace("-", "m"), hwc)
        for i, s in enumerate(SPECS):
            dd = dict(d); dd["SPEC"] = '"%s"' % s
            if s != "flatland":      # whether "flat<garbage>" is reported is the code's choice (prefix test), not the property's: no obligation
                dd["EXPECT_WARN"] = 0 if s in WELL_FORMED else 1      # was doubly quoted until the C40-r2 round: the strings then began with a quote character and all took the "invalid" branch
            J.append(Job("init.fixed.%d.%s" % (i, tag), "h_vpmap.c", entry="h_fixed", defines=dd, unwind=14, bounded=b,
                         functions=FUNCS, min_obligations=5, canaries=(2 if dd.get("EXPECT_WARN") == 1 else 1)))
    for (n, p_) in [(2, 2), (1, 1)] + ([(3, 2)] if tier == "thorough" else []):
        J.append(Job("init.rr.n%d.p%d" % (n, p_), "h_vpmap.c", entry="h_rr", defines={"NBC": "(2)", "HWC": 4, "RRN": n, "RRP": p_}, unwind=10,
                     bounded=b, functions=FUNCS, min_obligations=2))
    # "file:" specification whose file cannot be opened (fopen stub answers NULL): flat fallback (added after seeded change C40-r2)
    for i, fs in enumerate(["file:", "file:/nonexistent", "display:file:x"]):
        for (nbc, hwc) in sizes[:2]:
            J.append(Job("init.file_unopenable.%d.t%s.c%d" % (i, str(nbc).replace("-", "m"), hwc), "h_vpmap.c", entry="h_file_unopenable",
                         defines={"NBC": "(%d)" % nbc, "HWC": hwc, "FILE_SPEC": '"%s"' % fs}, unwind=20, bounded=b, functions=FUNCS,
                         min_obligations=5))
    J.append(Job("init_from_file.unopenable", "h_vpmap.c", entry="h_from_file_unopenable",
                 defines={"NBC": "(2)", "HWC": 4, "FILE_SPEC": '"file:"'}, unwind=20, bounded=b,
                 functions=["parsec_vpmap_init_from_file (early return: file cannot be opened)"], min_obligations=2))
    # relative index -> logical core of the allowed mask (parsec.c), complete over all 64-bit masks and all idx >= 0
    J.append(Job("find_core_by_idx", "h_core.c", entry="h_find_core", unwind=(22 if tier == "thorough" else 18), defines={"NBITS": (20 if tier == "thorough" else 16)}, functions=["parsec_find_core_by_idx"],
                 min_obligations=3, timeout=2400, bounded="allowed masks over the first 16 (quick) / 32 (thorough) cores, every mask and every index"))
    return J
