/* C40 (partial): contracts on the real parsec/vpmap.c for the flat / malformed /
 * rr: specifications and the getters.  hwloc bitmaps are replaced by a ghost
 * range record (trusted stub: set_range(lo,hi) has the hwloc meaning, hi == -1
 * meaning "unbounded"), sscanf("rr:%d:%d:%d") by a stub returning an arbitrary
 * number of converted fields and arbitrary integers.  NOT covered: "file:" and
 * "hwloc" specifications (fopen/getline and the hwloc topology are externals).
 */
#include "verif.h"
#include <string.h>
#include <stdlib.h>
#include <hwloc.h>

/* ---- ghost bitmaps ---- */
struct vbm { int used, lo, hi, nranges; };
#define NBM 24
static struct vbm g_bm[NBM];
static int g_nbm;
hwloc_bitmap_t hwloc_bitmap_alloc(void) { V_ASSUME(g_nbm < NBM); g_bm[g_nbm].used = 1; g_bm[g_nbm].nranges = 0; return (hwloc_bitmap_t)&g_bm[g_nbm++]; }
void hwloc_bitmap_free(hwloc_bitmap_t b) { if (b) ((struct vbm *)b)->used = 0; }
int hwloc_bitmap_set_range(hwloc_bitmap_t b, unsigned lo, int hi) { struct vbm *v = (struct vbm *)b; v->lo = (int)lo; v->hi = hi; v->nranges++; return 0; }
int hwloc_bitmap_singlify(hwloc_bitmap_t b) { struct vbm *v = (struct vbm *)b; if (v->nranges) v->hi = v->lo; return 0; }
int hwloc_bitmap_intersects(hwloc_const_bitmap_t a, hwloc_const_bitmap_t b) { (void)a; (void)b; return V_NONDET_INT() != 0; }
int hwloc_bitmap_or(hwloc_bitmap_t r, hwloc_const_bitmap_t a, hwloc_const_bitmap_t b) { (void)r; (void)a; (void)b; return 0; }

struct vin {
    char    spec[8];       /* free-form specification (NUL-terminated within 8) */
    int32_t nb_cores;      /* requested number of threads (-1 = all)            */
    int32_t hw_cores;      /* cores of the machine                              */
    int32_t singlify;      /* parsec_runtime_singlify_bindings                  */
    int32_t rr_fields, rr_n, rr_p, rr_c;   /* what sscanf("rr:%d:%d:%d") yields */
    int32_t q_vp, q_th;    /* getter queries                                    */
} vin;
#include "verif_vin.h"

int parsec_hwloc_nb_real_cores(void) { return vin.hw_cores; }
static int verif_sscanf3(const char *s, int *a, int *b, int *c)
{
    (void)s;
    if (vin.rr_fields >= 1) *a = vin.rr_n;
    if (vin.rr_fields >= 2) *b = vin.rr_p;
    if (vin.rr_fields >= 3) *c = vin.rr_c;
    return vin.rr_fields;
}
#ifndef VERIF_REPLAY
#define sscanf(str, fmt, a, b, c) verif_sscanf3(str, a, b, c)
#endif
#define V_COVER_WARNED() do { if (g_warned > 0) V_CANARY("malformed_branch_reached"); } while (0)
static int g_warned;      /* ghost: warnings issued (the observable that tells the "invalid specification" branch from the valid ones) */
void parsec_warning(const char *fmt, ...) { (void)fmt; g_warned++; }
/* parsec_warning(FMT, ...) is a macro (utils/debug.h) over parsec_output_verbose(0, 0, "%.*sW@%05d%.*s " FMT, ...): the fifth
 * character of the format tells a warning (W) from an information (i) or a debug line */
void parsec_output_verbose(int level, int id, const char *fmt, ...) { (void)level; (void)id; if (fmt[0] == '%' && fmt[4] == 'W' && ((fmt[15] == 'V' && fmt[17] == 'M') || (fmt[15] == 'D' && fmt[16] == 'i'))) g_warned++; }
/* counted: "VPMAP choice ... is invalid" and "Display thread mapping requested but vpmap argument incorrect" (the 15-character prefix
 * of the macro precedes the message); NOT counted: the over-commitment warning of the consolidation loop, which the nondeterministic
 * hwloc_bitmap_intersects stub may trigger for any specification */
void parsec_inform(const char *fmt, ...) { (void)fmt; }

/* Contracts for the two back ends that are out of reach (externals): in the jobs that use
 * --replace-call-with-contract the precondition `false` turns every call into a failed
 * obligation, i.e. it is PROVED that the specifications explored never reach them. */
static int parsec_vpmap_init_from_file(const char *filename) __CPROVER_requires(0) __CPROVER_assigns();
#ifdef FILE_SPEC   /* jobs init.file_unopenable.*: the file of a "file:" specification cannot be opened (trusted stub of fopen) */
#include <stdio.h>
static int g_fopen;
FILE *fopen(const char *path, const char *mode) { (void)path; (void)mode; g_fopen++; return NULL; }
char *strerror(int e) { (void)e; return "cannot open"; }
#endif
static int parsec_vpmap_init_from_hardware_affinity(int nbcores) __CPROVER_requires(0) __CPROVER_assigns();

#include "parsec/vpmap.c"

static void common_pre(void)
{
    vin_load();
    V_ASSUME(vin.hw_cores >= 1 && vin.hw_cores <= 8);
    V_ASSUME(vin.nb_cores == -1 || (vin.nb_cores >= 1 && vin.nb_cores <= 8));
    V_ASSUME(vin.singlify >= -1 && vin.singlify <= 1);
#ifdef NBC   /* thread and core counts fixed per cbmc process (calloc with a symbolic size does not scale) */
    V_ASSUME(vin.nb_cores == (NBC) && vin.hw_cores == (HWC));
#endif
    parsec_runtime_singlify_bindings = vin.singlify;
    parsec_nbvp = -1; parsec_vpmap = NULL; g_nbm = 0;
}

/* flat map = the default for NULL, "flat", "" and every malformed specification */
static void post_flat(void)
{
    int nth = (vin.nb_cores == -1) ? vin.hw_cores : vin.nb_cores;
    V_ASSERT(parsec_vpmap_get_nb_vp() == 1, "C40.init.post.flat_or_malformed_gives_one_virtual_process");
    V_ASSERT(parsec_vpmap_get_vp_threads(0) == nth, "C40.init.post.requested_number_of_threads");
    V_ASSERT(parsec_vpmap_get_nb_total_threads() == nth, "C40.init.post.total_thread_count");
    int t = vin.q_th;
    if (t >= 0 && t < nth) {
        int ht = -1;
        struct vbm *b = (struct vbm *)parsec_vpmap_get_vp_thread_affinity(0, t, &ht);
        V_ASSERT(b != NULL && b->used && b->nranges == 1 && ht == 0, "C40.init.post.every_thread_has_one_binding_range");
        if (nth <= vin.hw_cores) {
            /* binding within the cores of the machine (when not over-subscribed) */
            V_ASSERT(b->lo >= 0 && b->hi >= b->lo && b->hi < vin.hw_cores, "C40.init.post.thread_binding_within_available_cores");
            /* two different threads get disjoint ranges */
            int u = vin.q_vp;
            if (u >= 0 && u < nth && u != t) {
                struct vbm *c = (struct vbm *)parsec_vpmap_get_vp_thread_affinity(0, u, &ht);
                V_ASSERT(c->hi < b->lo || b->hi < c->lo, "C40.init.post.threads_bound_to_disjoint_cores");
            }
        }
        V_ASSERT(parsec_vpmap_get_vp_thread_cores(0, t) >= 0, "C40.getters.post.thread_cores_nonnegative");
    }
    /* getters reject out-of-range queries */
    if (vin.q_vp != 0) {
        V_ASSERT(parsec_vpmap_get_vp_threads(vin.q_vp) == PARSEC_ERR_BAD_PARAM, "C40.getters.post.bad_vp_rejected");
        int ht = 0;
        V_ASSERT(parsec_vpmap_get_vp_thread_affinity(vin.q_vp, 0, &ht) == NULL, "C40.getters.post.bad_vp_affinity_rejected");
    }
    if (vin.q_th < 0 || vin.q_th >= nth)
        V_ASSERT(parsec_vpmap_get_vp_thread_cores(0, vin.q_th) == PARSEC_ERR_BAD_PARAM, "C40.getters.post.bad_thread_rejected");
    parsec_vpmap_fini();
    V_ASSERT(parsec_vpmap_get_nb_vp() == -1 && parsec_vpmap == NULL, "C40.fini.post.map_released");
}

void h_null(void)
{
    common_pre();
    parsec_vpmap_init(NULL, vin.nb_cores);
    post_flat();
    V_CANARY("null");
}
#ifndef RRF
#define RRF 0
#endif
#ifndef RRN
#define RRN 2
#define RRP 2
#endif
#ifndef SPEC
#define SPEC "flat"
#endif
void h_fixed(void)
{
    common_pre();
    static char s[] = SPEC;
    parsec_vpmap_init(s, vin.nb_cores);
#ifdef EXPECT_WARN   /* reachability of the intended branch.  The property demands the flat FALL-BACK for a malformed specification,
                      * not a message: so only "a well-formed specification does not take the malformed branch" is an obligation;
                      * for a malformed one the report is a cover goal of the harness (second canary: it must be REACHABLE that
                      * the code reported it on the unchanged tree -- checked by the job's canary count, not a property clause) */
#if EXPECT_WARN
    V_COVER_WARNED();
#else
    V_ASSERT(g_warned == 0, "C40.init.lemma.well_formed_specification_is_not_treated_as_malformed");
#endif
#endif
    post_flat();
    V_CANARY("fixed");
}
/* rr:<garbage> (sscanf converts fewer than 3 fields): malformed -> flat */
void h_rr_malformed(void)
{
    common_pre();
    vin.rr_fields = RRF;      /* number of fields sscanf converts: fixed per cbmc process (0, 1 or 2) */
    static char s[] = "rr:x";
    parsec_vpmap_init(s, vin.nb_cores);
    post_flat();
    V_CANARY("rr_malformed");
}
/* rr:n:p:c well formed: n virtual processes of p threads, bindings within c cores; no crash */
void h_rr(void)
{
    common_pre();
    vin.rr_fields = 3; vin.rr_n = RRN; vin.rr_p = RRP;    /* n, p fixed per cbmc process */
    V_ASSUME(vin.rr_c >= 1 && vin.rr_c <= 8);
    static char s[] = "rr:2:2:4";
    parsec_vpmap_init(s, vin.nb_cores);
    V_ASSERT(parsec_vpmap_get_nb_vp() == vin.rr_n, "C40.init.post.rr_requested_number_of_virtual_processes");
    int v = vin.q_vp;
    if (v >= 0 && v < vin.rr_n)
        V_ASSERT(parsec_vpmap_get_vp_threads(v) == vin.rr_p, "C40.init.post.rr_requested_threads_per_virtual_process");
    V_CANARY("rr");
}

#ifdef FILE_SPEC
/* "file:<name>" whose file cannot be opened: unusable specification -> the flat map (property: malformed / unusable
 * specifications fall back to the default map).  The real parsec_vpmap_init_from_file runs up to its early return. */
void h_file_unopenable(void)
{
    common_pre();
    static char s[] = FILE_SPEC;
    parsec_vpmap_init(s, vin.nb_cores);
    V_ASSERT(g_fopen == 1, "C40.init.lemma.file_specification_reaches_fopen_once");
    post_flat();
    V_CANARY("file_unopenable");
}
void h_from_file_unopenable(void)
{
    common_pre();
    int rc = parsec_vpmap_init_from_file("nofile");
    V_ASSERT(rc != PARSEC_SUCCESS && g_fopen == 1, "C40.init_from_file.post.unopenable_file_reported");
    V_ASSERT(parsec_nbvp == -1 && parsec_vpmap == NULL, "C40.init_from_file.post.unopenable_file_leaves_no_map_state");
    V_CANARY("from_file_unopenable");
}
#endif
