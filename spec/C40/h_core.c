/* C40 (added after a seeded change was missed): contract of parsec_find_core_by_idx (parsec.c included verbatim),
 * the function that turns the relative core indexes stored in the virtual-process map into the logical cores the
 * threads are bound to.  From the property ("every thread's binding lies within the cores available to the
 * process"): for idx >= 0 the result is the idx-th core OF THE ALLOWED MASK (hence a member of it), or -1 when the
 * mask has fewer cores.  hwloc bitmaps are a ghost 64-bit word (trusted stub with the hwloc meaning). */
#include "verif.h"
#define VERIF_RG_DEFAULT_HOOKS
#include "verif_rg.h"
#include <hwloc.h>
#ifndef NBITS
#define NBITS 16
#endif
struct vin { uint64_t allowed; int32_t idx; int32_t hw_cores; } vin;
#include "verif_vin.h"
static uint64_t g_allowed_word;          /* the bits behind context->cpuset_allowed_mask */
int hwloc_bitmap_next(hwloc_const_bitmap_t b, int prev)
{
    (void)b;
    for (int p = prev + 1; p < NBITS; p++) if ((g_allowed_word >> p) & 1) return p;
    return -1;
}
int hwloc_bitmap_weight(hwloc_const_bitmap_t b) { (void)b; int w = 0; for (int p = 0; p < NBITS; p++) w += (g_allowed_word >> p) & 1; return w; }
int hwloc_bitmap_isset(hwloc_const_bitmap_t b, unsigned id) { (void)b; return id < NBITS && ((g_allowed_word >> id) & 1); }
int parsec_hwloc_nb_real_cores(void) { return vin.hw_cores; }
void parsec_output_verbose(int level, int id, const char *fmt, ...) { (void)level; (void)id; (void)fmt; }
void parsec_warning(const char *fmt, ...) { (void)fmt; }

#include "parsec/parsec.c"

void h_find_core(void)
{
    vin_load();
    static parsec_context_t ctx; static int dummy;
    ctx.cpuset_allowed_mask = (hwloc_cpuset_t)&dummy;
    V_ASSUME((vin.allowed >> NBITS) == 0);
    g_allowed_word = vin.allowed;
    /* parsec_hwloc_nb_real_cores counts the cores of the process' own cpuset (parsec_hwloc.c): the weight of the mask */
    int w = 0; for (int p = 0; p < NBITS; p++) w += (vin.allowed >> p) & 1;
    V_ASSUME(vin.hw_cores == w);
    V_ASSUME(vin.idx >= 0);
    int r = parsec_find_core_by_idx(&ctx, vin.idx);
    if (vin.idx < w) {
        V_ASSERT(r >= 0 && r < NBITS && ((vin.allowed >> r) & 1), "C40.find_core_by_idx.post.binding_target_is_a_core_available_to_the_process");
        int below = 0; for (int p = 0; p < NBITS; p++) if (p < r) below += (vin.allowed >> p) & 1;
        V_ASSERT(below == vin.idx, "C40.find_core_by_idx.post.is_the_idx_th_core_of_the_allowed_set");
    } else {
        V_ASSERT(r == -1, "C40.find_core_by_idx.post.no_such_core_gives_minus_one");
    }
    V_CANARY("find_core");
}
