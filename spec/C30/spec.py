from vlib import Job

FUNCS = ["parsec_lifo_push", "parsec_lifo_chain", "parsec_lifo_pop", "parsec_lifo_try_pop",
         "parsec_update_counted_pointer", "parsec_lifo_is_empty", "parsec_lifo_nolock_is_empty",
         "parsec_lifo_nolock_push", "parsec_lifo_nolock_chain", "parsec_lifo_nolock_pop", "parsec_lifo_construct"]

META = dict(
    level="other",
    functions=FUNCS,
    explanation="Contracts on the real lock-free LIFO of parsec/class/lifo.h (128-bit-CAS variant, as configured; included verbatim "
                "through parsec_lifo.c) against an abstract stack S kept as ghost state (indices into one static pool of list items). "
                "Inv: head.item is the address of S[0] (NULL if empty), list_next of S[i] is S[i+1] (NULL for the last), entries distinct. "
                "(SEQ) quiescent contracts, for every Inv-state over the pool, every counter value in [0,2^62) and arbitrary list_next/list_prev "
                "of the items outside S: push gives x.S; chain of a ring r1..rk (built with the real parsec_list_item_singleton/_ring_push) "
                "gives r1..rk.S in ring order; pop/try_pop return NULL on empty with the state unchanged, else return S[0], leave tail(S), "
                "clear the returned item's list_next and strictly increase the counter; nolock_push/_chain/_pop and (nolock_)is_empty likewise; "
                "the constructor gives the empty stack with counter 0; retry loops unwound with unwinding assertions (no retry when quiescent). "
                "seq.history runs every sequence of HLEN operations from every state and compares with an abstract stack after each one. "
                "(RG) the same functions under interference: before AND after each of their atomic operations and fences (wrappers of verif_rg.h with VERIF_RG_POST_STEP) the "
                "environment replaces the shared state by ANY state allowed by the Rely {counter never decreases; counter unchanged => the old "
                "stack is a suffix of the new one (only pushes happened); items I own are neither pushed nor written; list_next of items outside "
                "S is arbitrary}.  At each of my successful CAS the hook states the Guarantee: for pop/try_pop the installed head is the true "
                "successor of the top AT THAT INSTANT (the no-ABA obligation) and the counter grew by exactly 1 (which is what the others' Rely "
                "needs); for push/chain the new head is my item/ring head, ring order kept, my tail links to the old top, counter not decreased; "
                "a failed CAS changes nothing; my plain writes between atomic steps leave the shared chain intact (checked before every step); "
                "Inv is re-established.  Post: non-NULL return <=> exactly one linearisation point, the returned item is the ghost top at that "
                "point, its list_next is NULL and it is owned by me alone; NULL return => no linearisation point and the stack was observed "
                "empty right after my last fence, environment step behind the fence included (try_pop: or its CAS failed, which happens only after interference).  try_pop is loop-free, so rg.try_pop "
                "covers every interference pattern; the retry loops of pop/push/chain are explored up to MAXFAIL environment-induced CAS failures "
                "(bounded).  (LEMMA) split_reads: the real pop reads head.item and then item->list_next with nothing in between, so no "
                "environment step can be injected there; the lemma re-runs the finer schedule counter-read; ENV; item-read; ENV; next-read; ENV; "
                "CAS under the same Rely and proves that a successful CAS still installs the true successor.",
    trusted_base=["rely/guarantee soundness theorem (per-thread guarantee obligations imply Inv and the Rely of every other thread, for every interleaving)",
                  "the step from 'every successful CAS is one abstract push/pop at that instant' to linearizability of whole histories (standard argument, not mechanised)",
                  "CBMC's model of __sync_bool_compare_and_swap on the 128-bit union {counter, item pointer} (atomic, sequentially consistent)",
                  "no stubs: every callee of the functions under contract is the real code (atomic.h / atomic-gcc.h wrappers included)"],
    assumptions=["all items handed to one LIFO come from one pool of NPOOL items (3 quick / 4 thorough), so abstract stacks have length <= NPOOL "
                 "(shape bound; pop/push only touch the top two items, the generalisation to longer stacks is not mechanised)",
                 "the 64-bit pop counter does not wrap around during one operation (counter stays in [0, 2^62))",
                 "callers respect ownership: a thread pushes/chains only items it owns (not in any LIFO), other threads do not write the fields "
                 "of an item they do not own; the nolock_* variants are used only when no other thread accesses the LIFO; nolock_pop is not "
                 "called on an empty LIFO (it dereferences the head)",
                 "a ring handed to chain is well formed (ring->list_prev is its last element, list_next links follow ring order)",
                 "the pair of plain reads item=head.item; item->list_next in pop/try_pop is treated as one instant in the rg.* jobs; this is "
                 "benign by lemma.split_reads (a change of item->list_next between the two reads means item left the stack, hence the counter "
                 "grew after my counter read and my CAS fails and discards the value), assuming reads of an aligned pointer are single-copy atomic",
                 "fences: only sequentially consistent executions are examined; the placement of rmb/wmb for weaker memory models is not decided"],
)

MANIFEST = dict(
    category="other",
    text="Pre/post contracts over a ghost abstract stack on the real lifo.h code (128-bit CAS variant), discharged by CBMC: sequential "
         "(quiescent) stack semantics of construct/push/chain/pop/try_pop/nolock_*/is_empty from every well-formed state over a pool of 3 "
         "(thorough 4) items, and rely/guarantee obligations under arbitrary Rely-conforming interference at every atomic step: every "
         "successful 128-bit CAS of pop/try_pop installs the true successor of the current top (no ABA) and bumps the counter by one, every "
         "successful pointer CAS of push/chain is an abstract push keeping ring order, with exactly one linearisation point per successful "
         "call and none on a NULL return.  Level 'other': the stack length is bounded by the pool and the retry loops by a failure count.",
    note="Not decided: stacks longer than the pool (3/4 items); more than MAXFAIL (2/3) failed attempts in the retry loops of pop/push/chain "
         "(each attempt starts from scratch, try_pop = one attempt is complete); the lift from per-CAS abstract steps to linearizability of whole "
         "histories and the rely/guarantee soundness theorem (meta-arguments); counter wrap-around (2^64 pops during one operation); weak-memory "
         "behaviour of the fences; lock-freedom/progress; the non-configured LLSC and spin-lock variants of lifo.h; the 'long random stress with "
         "2..16 threads' part of the quantifier (testing is outside the technique).",
    technique="function contracts + rely/guarantee ghost state (abstract stack, ownership, linearisation points) on the real lifo.h, CBMC (SAT), shape-bounded pool",
    design_ref="DESIGN.md section 5, C30")


def jobs(tier):
    full = tier == "thorough"
    n = 4 if full else 3
    mf = 3 if full else 2
    hl = 4 if full else 3
    D = {"NPOOL": n, "MAXFAIL": mf, "HLEN": hl}
    U = n + 2
    retry = {"parsec_lifo_pop.0": mf + 2, "parsec_lifo_push.0": mf + 2, "parsec_lifo_chain.0": mf + 2}
    quiet = {"parsec_lifo_pop.0": 2, "parsec_lifo_push.0": 2, "parsec_lifo_chain.0": 2}
    pool = "item pool of %d list items (abstract stacks of length <= %d)" % (n, n)
    fails = "; at most %d environment-induced CAS failures in the retry loop" % mf
    to = 1500 if full else 280
    J = [
        Job("construct", "h_lifo.c", entry="h_construct", defines=D, unwind=U, functions=["parsec_lifo_construct"],
            timeout=to, min_obligations=3),
        Job("seq.push", "h_lifo.c", entry="h_seq_push", defines=D, unwind=U, unwindset=quiet, bounded=pool,
            functions=["parsec_lifo_push"], timeout=to, min_obligations=8),
        Job("seq.chain", "h_lifo.c", entry="h_seq_chain", defines=D, unwind=U, unwindset=quiet, bounded=pool,
            functions=["parsec_lifo_chain"], timeout=to, min_obligations=7),
        Job("seq.pop", "h_lifo.c", entry="h_seq_pop", defines=D, unwind=U, unwindset=quiet, bounded=pool,
            functions=["parsec_lifo_pop", "parsec_lifo_is_empty", "parsec_lifo_nolock_is_empty"], timeout=to, min_obligations=10),
        Job("seq.try_pop", "h_lifo.c", entry="h_seq_try_pop", defines=D, unwind=U, bounded=pool,
            functions=["parsec_lifo_try_pop"], timeout=to, min_obligations=8),
        Job("seq.nolock", "h_lifo.c", entry="h_seq_nolock", defines=D, unwind=U, bounded=pool,
            functions=["parsec_lifo_nolock_push", "parsec_lifo_nolock_pop"], timeout=to, min_obligations=5),
        Job("seq.nolock_chain", "h_lifo.c", entry="h_seq_nolock_chain", defines=D, unwind=U, bounded=pool,
            functions=["parsec_lifo_nolock_chain", "parsec_lifo_nolock_pop"], timeout=to, min_obligations=3),
        Job("seq.history", "h_lifo.c", entry="h_seq_history", defines=D, unwind=U, unwindset=quiet,
            bounded=pool + "; every sequence of %d operations (pop/try_pop/push/chain-of-2) from every state" % hl,
            functions=FUNCS[:4], timeout=to, min_obligations=6),
        Job("rg.try_pop", "h_lifo.c", entry="h_rg_try_pop", defines=D, unwind=U, bounded=pool,
            functions=["parsec_lifo_try_pop", "parsec_update_counted_pointer"], timeout=to, min_obligations=10),
        Job("rg.pop", "h_lifo.c", entry="h_rg_pop", defines=D, unwind=U, unwindset=retry, bounded=pool + fails,
            functions=["parsec_lifo_pop", "parsec_update_counted_pointer"], timeout=to, min_obligations=10),
        Job("rg.push", "h_lifo.c", entry="h_rg_push", defines=D, unwind=U, unwindset=retry, bounded=pool + fails,
            functions=["parsec_lifo_push"], timeout=to, min_obligations=8),
        Job("rg.chain", "h_lifo.c", entry="h_rg_chain", defines=D, unwind=U, unwindset=retry, bounded=pool + fails,
            functions=["parsec_lifo_chain"], timeout=to, min_obligations=8),
        Job("lemma.split_reads", "h_lifo.c", entry="h_lemma_split_reads", defines=D, unwind=U, bounded=pool,
            functions=[], timeout=to, min_obligations=2),
    ]
    return J
