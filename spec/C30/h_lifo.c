/* C30: the lock-free LIFO of parsec/class/lifo.h (128-bit-CAS variant, as configured
 * in /repo/_build) is a linearizable stack.  The real code is included verbatim through
 * parsec/class/parsec_lifo.c (constructor + lifo.h); every parsec_atomic_* / fence call of
 * the real code goes through the rely/guarantee wrappers of verif_rg.h.
 *
 * Abstract state (ghost): the stack S = g_stack[0..g_len) of indices into ONE static pool
 * of NPOOL list items, top first.
 *   Inv:  L.lifo_head.data.item == &pool[S[0]]          (NULL when S is empty)
 *         pool[S[i]].list_next  == &pool[S[i+1]]        (NULL for the last one)
 *         the S[i] are pairwise distinct, none of them is owned by me (g_mine[])
 * Ownership: an item is either in S, or owned by me (the item / ring I am pushing, the
 * item I popped), or owned by some other thread ("free": its list_next is arbitrary and
 * may change at any time).
 *
 * Rely (what the other threads may do; verif_env_step runs BEFORE and, with VERIF_RG_POST_STEP, AFTER each
 * of my atomic operations and fences, i.e. also between an operation and my next plain access):
 *   R1  the counter never decreases (no wrap-around: it stays below 2^62)
 *   R2  counter unchanged  ==>  only pushes/chains happened: the old S is a suffix of the new S
 *   R3  items owned by me are never put into S and their fields are not touched
 *   R4  list_next of the items in the new S is what Inv says; list_next of free items is arbitrary
 *   R1/R2 are exactly what the guarantee obligations below demand from my own steps
 *   (pop.guar.pop_increments_counter, push/chain.guar.*): every thread runs this same code.
 * Guarantee (checked inside verif_own_step at my successful CAS = my linearisation point):
 *   pop/try_pop: the head I install is the TRUE successor of the top at that instant (no ABA),
 *                the counter grew by exactly one; then the ghost pop is performed
 *   push/chain : new head is my item / ring head, ring order kept, my tail's list_next is the
 *                old top, counter not decreased; then the ghost push is performed
 *   a failed CAS changes nothing; between atomic steps my plain writes leave Inv intact.
 */
#include "verif.h"
#ifndef VERIF_RG_POST_STEP
#define VERIF_RG_POST_STEP   /* the environment also acts AFTER each of my atomic operations / fences */
#endif
#include "verif_rg.h"
#include "parsec/class/parsec_lifo.c"

#if !defined(PARSEC_ATOMIC_HAS_ATOMIC_CAS_INT128)
#error "C30 contracts are written for the 128-bit CAS variant of lifo.h configured in /repo/_build"
#endif

#ifndef NPOOL
#define NPOOL 3
#endif
#define N NPOOL
#ifndef MAXFAIL
#define MAXFAIL 2            /* bound on environment-induced CAS failures in the retry loops */
#endif
/* environment steps: before AND after each fence / CAS: 4 per attempt, + 2 for the final wmb of pop */
#define ENVK (4 * (MAXFAIL + 1) + 2)
#ifndef HLEN
#define HLEN 3               /* length of the symbolic operation sequence of h_seq_history */
#endif
#define CMAX ((int64_t)1 << 62)

struct vin {
    /* initial state */
    uint8_t len0;  uint8_t s0[N];  uint8_t fn0[N];  uint8_t pv0[N];  int64_t c0;
    /* arguments */
    uint8_t x;                      /* item to push                                  */
    uint8_t k;     uint8_t r[N];    /* ring to chain: r[0..k)                        */
    /* environment steps */
    uint8_t env_len[ENVK]; uint8_t env_s[ENVK][N]; uint8_t env_fn[ENVK][N]; int64_t env_dc[ENVK];
    /* constructor job */
    uint8_t junk_align; int64_t junk_counter; uint8_t junk_item;
    /* history job */
    uint8_t op[HLEN]; uint8_t opx[HLEN]; uint8_t opy[HLEN];
} vin;
#include "verif_vin.h"

enum { OP_NONE = 0, OP_PUSH, OP_CHAIN, OP_POP, OP_TRY_POP };

static parsec_lifo_t      L;
static parsec_list_item_t pool[N];

/* ---- ghost state ---- */
static uint8_t g_stack[N];
static int     g_len;
static uint8_t g_mine[N];
static int     g_env_on;          /* 0: quiet environment (sequential contracts)              */
static int     g_env_k;           /* environment steps consumed                               */
static int     g_op;              /* operation under contract                                 */
static int     g_lin;             /* my linearisation points (successful CAS)                 */
static int     g_fail;            /* my failed CAS attempts                                   */
static int     g_popped = -1;     /* ghost top removed at my linearisation point              */
static int     g_seen_len = -1;   /* |S| right after my last fence, i.e. after the environment step that follows it:
                                   * that is the state the plain reads behind the fence see */
static int     g_post;            /* 0: next verif_env_step precedes my operation; 1: post step after a fence;
                                   * 2: post step after a failed CAS; 3: post step after another own step */
static int     g_changed;         /* did the environment act since my current attempt started */
static uint8_t g_x;               /* item being pushed                                        */
static uint8_t g_ring[N]; static int g_ring_k;     /* ring being chained                      */
static parsec_list_item_t *g_pre_item;             /* head just before my atomic step         */
static int64_t             g_pre_counter;

static parsec_list_item_t *ptr_of(uint8_t k) { return k < N ? &pool[k] : NULL; }
#define NEXT(i)    ((parsec_list_item_t *)pool[i].list_next)
#define COUNTER    (L.lifo_head.data.guard.counter)
#define HEAD       (L.lifo_head.data.item)

/* does the concrete LIFO represent the sequence s[0..len) ? (flat, no recursion) */
static int matches(const uint8_t *s, int len)
{
    if (len < 0 || len > N) return 0;
    int ok = 1;
    ok &= (HEAD == (len ? ptr_of(s[0]) : NULL));
    for (int i = 0; i < N; i++) {
        if (i < len) {
            ok &= (s[i] < N);
            ok &= (NEXT(s[i] % N) == ((i + 1 < len) ? ptr_of(s[i + 1]) : NULL));
            for (int j = 0; j < i; j++) ok &= (s[i] != s[j]);
        }
    }
    return ok;
}
static int inv_ok(void)
{
    int ok = matches(g_stack, g_len);
    for (int i = 0; i < N; i++) if (i < g_len) ok &= !g_mine[g_stack[i] % N];
    return ok;
}
static parsec_list_item_t *ghost_successor(void) { return g_len >= 2 ? ptr_of(g_stack[1]) : NULL; }
static parsec_list_item_t *ghost_top(void) { return g_len >= 1 ? ptr_of(g_stack[0]) : NULL; }

static void ghost_push(uint8_t x)
{
    for (int i = N - 1; i > 0; i--) g_stack[i] = g_stack[i - 1];
    g_stack[0] = x; g_len++; g_mine[x % N] = 0;
}
static void ghost_pop(void)
{
    g_popped = g_stack[0];
    for (int i = 0; i + 1 < N; i++) g_stack[i] = g_stack[i + 1];
    g_len--; g_mine[g_popped % N] = 1;
}

/* write a state satisfying Inv: stack s[0..len), list_next of the items outside of it from fn[]
 * (initially also for my own items; later the environment leaves my items alone: R3) */
static void install(int len, const uint8_t *s, const uint8_t *fn, int initial)
{
    uint8_t in[N];
    for (int i = 0; i < N; i++) in[i] = 0;
    g_len = len;
    for (int i = 0; i < N; i++) {
        g_stack[i] = s[i];
        if (i < len) in[s[i] % N] = 1;
    }
    HEAD = len ? ptr_of(s[0]) : NULL;
    for (int i = 0; i < N; i++)
        if (i < len) pool[s[i] % N].list_next = (i + 1 < len) ? ptr_of(s[i + 1]) : NULL;
    for (int j = 0; j < N; j++)
        if (!in[j] && (initial || !g_mine[j])) pool[j].list_next = ptr_of(fn[j]);
}
/* a candidate stack is admissible: indices in range, distinct, none mine */
static void assume_admissible(int len, const uint8_t *s)
{
    V_ASSUME(len >= 0 && len <= N);
    for (int i = 0; i < N; i++) {
        V_ASSUME(s[i] < N);
        if (i < len) {
            V_ASSUME(!g_mine[s[i]]);
            for (int j = 0; j < i; j++) V_ASSUME(s[i] != s[j]);
        }
    }
}

/* ---- the environment: any transition allowed by the Rely ---- */
static void env_act(void)
{
    if (!g_env_on) return;
    V_ASSERT(g_env_k < ENVK, "C30.harness.inv.environment_step_budget_not_exceeded");
    if (g_env_k >= ENVK) return;
    int k = g_env_k++;
    int nl = vin.env_len[k];
    int64_t dc = vin.env_dc[k];
    assume_admissible(nl, vin.env_s[k]);                         /* R3 + Inv */
    V_ASSUME(dc >= 0 && dc < CMAX - COUNTER);                    /* R1 */
    if (dc == 0) {                                               /* R2: pushes only */
        V_ASSUME(nl >= g_len);
        for (int i = 0; i < N; i++)
            if (i < g_len) V_ASSUME(vin.env_s[k][(nl - g_len + i) % N] == g_stack[i]);
    }
    if (dc != 0 || nl != g_len) g_changed = 1;
    COUNTER += dc;
    install(nl, vin.env_s[k], vin.env_fn[k], 0);                 /* R4 */
}

void verif_env_step(int op, volatile void *loc)
{
    (void)op; (void)loc;
    /* my plain (non-atomic) writes since my previous atomic step did not damage the shared chain */
    V_ASSERT(inv_ok(), "C30.lifo.guar.plain_writes_leave_shared_chain_intact");
    env_act();
    if (g_post) {
        /* post step (VERIF_RG_POST_STEP): interference between my operation and my next plain access.  The ghost
         * values captured AT my CAS (g_popped, g_lin, the guarantee obligations) were fixed in verif_own_step and
         * are not touched here. */
        if (g_post == 1) g_seen_len = g_len;     /* the plain reads behind the fence see this state */
        if (g_post == 2) g_changed = 0;          /* my next attempt starts now */
        g_post = 0;
        return;
    }
    g_pre_item = HEAD; g_pre_counter = COUNTER;  /* recorded only while my step has not happened yet */
}

void verif_own_step(int op, volatile void *loc, int success)
{
#ifdef VERIF_RG_POST_STEP
    g_post = 3;
#endif
    if (op == V_OP_FENCE) {
        g_seen_len = g_len;
#ifdef VERIF_RG_POST_STEP
        g_post = 1;
#endif
        return;
    }
    if (op != V_OP_CAS) return;
    if (loc != (volatile void *)&L.lifo_head && loc != (volatile void *)&L.lifo_head.data.item) return;
    if (!success) {
        g_fail++;
#ifdef VERIF_RG_POST_STEP
        g_post = 2;
#endif
        V_ASSERT(HEAD == g_pre_item && COUNTER == g_pre_counter, "C30.lifo.guar.failed_cas_changes_nothing");
        if (g_op == OP_POP || g_op == OP_TRY_POP)
            V_ASSERT(g_changed, "C30.pop.guar.cas_fails_only_after_interference");
        g_changed = 0;                                           /* the next attempt re-reads everything */
        if (g_op != OP_TRY_POP) V_ASSUME(g_fail <= MAXFAIL);     /* bound of the retry loops (Job.bounded) */
        return;
    }
    g_lin++;
    if (g_op == OP_POP || g_op == OP_TRY_POP) {
        V_ASSERT(g_len >= 1 && g_pre_item == ghost_top(), "C30.pop.guar.cas_succeeds_only_on_the_current_top");
        /* NO-ABA obligation: the pointer I read as item->list_next earlier is, at the instant of my
         * successful CAS, still the successor of the top */
        V_ASSERT(HEAD == ghost_successor(), "C30.pop.guar.successful_cas_installs_the_true_successor");
        V_ASSERT(COUNTER == g_pre_counter + 1, "C30.pop.guar.pop_increments_counter");
        if (g_len >= 1) ghost_pop();
    } else if (g_op == OP_PUSH) {
        V_ASSERT(HEAD == ptr_of(g_x), "C30.push.guar.new_head_is_my_item");
        V_ASSERT(NEXT(g_x % N) == g_pre_item, "C30.push.guar.my_item_links_to_the_old_top");
        V_ASSERT(COUNTER >= g_pre_counter, "C30.push.guar.counter_not_decreased");
        V_ASSERT(g_len < N && g_mine[g_x % N], "C30.push.guar.pushes_only_an_item_it_owns");
        if (g_len < N) ghost_push(g_x);
    } else if (g_op == OP_CHAIN) {
        V_ASSERT(HEAD == ptr_of(g_ring[0]), "C30.chain.guar.new_head_is_ring_head");
        int ok = 1;
        for (int i = 0; i < N; i++)
            if (i < g_ring_k)
                ok &= (NEXT(g_ring[i] % N) == ((i + 1 < g_ring_k) ? ptr_of(g_ring[i + 1]) : g_pre_item));
        V_ASSERT(ok, "C30.chain.guar.ring_order_kept_and_tail_links_to_the_old_top");
        V_ASSERT(COUNTER >= g_pre_counter, "C30.chain.guar.counter_not_decreased");
        V_ASSERT(g_len + g_ring_k <= N, "C30.chain.guar.pushes_only_items_it_owns");
        if (g_len + g_ring_k <= N)
            for (int i = N - 1; i >= 0; i--) if (i < g_ring_k) ghost_push(g_ring[i]);
    } else {
        V_ASSERT(0, "C30.lifo.guar.no_cas_on_the_head_outside_push_chain_pop");
    }
    V_ASSERT(inv_ok(), "C30.lifo.inv.my_linearisation_step_preserves_the_stack_shape");
}

/* ---- pre-state ---- */
static void setup(int op, int env_on)
{
    vin_load();
    g_op = op; g_env_on = env_on; g_env_k = 0; g_lin = 0; g_fail = 0; g_popped = -1; g_seen_len = -1; g_changed = 0; g_post = 0;
    for (int i = 0; i < N; i++) g_mine[i] = 0;
    if (op == OP_PUSH) {
        V_ASSUME(vin.x < N);
        g_x = vin.x; g_mine[g_x] = 1;
    }
    if (op == OP_CHAIN) {
        V_ASSUME(vin.k >= 1 && vin.k <= N);
        g_ring_k = vin.k;
        for (int i = 0; i < N; i++) {
            V_ASSUME(vin.r[i] < N);
            g_ring[i] = vin.r[i];
            if (i < vin.k) { V_ASSUME(!g_mine[vin.r[i]]); g_mine[vin.r[i]] = 1; }
        }
    }
    V_ASSUME(vin.c0 >= 0 && vin.c0 < CMAX - 1);
    L.alignment = PARSEC_LIFO_ALIGNMENT_DEFAULT;
    COUNTER = vin.c0;
    assume_admissible(vin.len0, vin.s0);
    install(vin.len0, vin.s0, vin.fn0, 1);
    for (int j = 0; j < N; j++) pool[j].list_prev = ptr_of(vin.pv0[j]);
}
/* the ring r[0..k) built with the REAL ring primitives of list_item.h */
static parsec_list_item_t *build_ring(void)
{
    parsec_list_item_t *ring = parsec_list_item_singleton(&pool[g_ring[0]]);
    for (int i = 1; i < N; i++)
        if (i < g_ring_k) parsec_list_item_ring_push(ring, &pool[g_ring[i]]);
    return ring;
}
/* expected abstract result, computed from the inputs only (independent of the hooks' ghost) */
static void expect_after_push(uint8_t *e, int *elen, const uint8_t *add, int nadd)
{
    for (int i = 0; i < N; i++) e[i] = 0;
    for (int i = 0; i < N; i++) if (i < nadd) e[i] = add[i];
    for (int i = 0; i < N; i++) if (i < vin.len0 && nadd + i < N) e[nadd + i] = vin.s0[i];
    *elen = nadd + vin.len0;
}

/* ================================================================== */
/* sequential (quiescent) contracts against the abstract sequence      */
/* ================================================================== */
void h_construct(void)
{
    vin_load();
    L.alignment = vin.junk_align; COUNTER = vin.junk_counter; HEAD = ptr_of(vin.junk_item);
    parsec_lifo_construct(&L);
    V_ASSERT(parsec_lifo_is_empty(&L) && parsec_lifo_nolock_is_empty(&L), "C30.construct.post.new_lifo_is_empty");
    V_ASSERT(HEAD == NULL && COUNTER == 0, "C30.construct.post.head_null_counter_zero");
    V_ASSERT(L.alignment == PARSEC_LIFO_ALIGNMENT_DEFAULT, "C30.construct.post.default_alignment");
    V_CANARY("construct");
}

void h_seq_push(void)
{
    setup(OP_PUSH, 0);
    uint8_t e[N]; int elen;
    expect_after_push(e, &elen, &g_x, 1);
    parsec_lifo_push(&L, &pool[g_x]);
    V_ASSERT(elen <= N && matches(e, elen), "C30.push.post.stack_is_item_followed_by_old_stack");
    V_ASSERT(COUNTER >= vin.c0, "C30.push.post.counter_not_decreased");
    V_ASSERT(g_lin == 1 && g_fail == 0, "C30.push.post.exactly_one_linearisation_point");
    V_ASSERT(!parsec_lifo_is_empty(&L), "C30.push.post.not_empty");
    V_CANARY("seq_push");
}

void h_seq_chain(void)
{
    setup(OP_CHAIN, 0);
    uint8_t e[N]; int elen;
    expect_after_push(e, &elen, g_ring, g_ring_k);
    parsec_list_item_t *ring = build_ring();
    parsec_lifo_chain(&L, ring);
    V_ASSERT(elen <= N && matches(e, elen), "C30.chain.post.stack_is_ring_in_order_followed_by_old_stack");
    V_ASSERT(COUNTER >= vin.c0, "C30.chain.post.counter_not_decreased");
    V_ASSERT(g_lin == 1 && g_fail == 0, "C30.chain.post.exactly_one_linearisation_point");
    V_CANARY("seq_chain");
}

static void post_seq_pop(parsec_list_item_t *r)
{
    if (vin.len0 == 0) {
        V_ASSERT(r == NULL, "C30.pop.post.empty_gives_null");
        V_ASSERT(matches(vin.s0, 0) && COUNTER == vin.c0 && g_lin == 0, "C30.pop.post.empty_leaves_state_unchanged");
    } else {
        V_ASSERT(r == &pool[vin.s0[0]], "C30.pop.post.returns_the_top");
        V_ASSERT(matches(vin.s0 + 1, vin.len0 - 1), "C30.pop.post.stack_is_old_tail");
        V_ASSERT(r != NULL && r->list_next == NULL, "C30.pop.post.returned_item_list_next_is_null");
        V_ASSERT(COUNTER > vin.c0, "C30.pop.post.counter_strictly_increases_on_successful_pop");
        V_ASSERT(g_lin == 1 && g_fail == 0, "C30.pop.post.exactly_one_linearisation_point");
    }
    V_ASSERT(V_IFF(parsec_lifo_is_empty(&L), vin.len0 <= 1), "C30.is_empty.post.iff_abstract_stack_empty_after_pop");
}
void h_seq_pop(void)
{
    setup(OP_POP, 0);
    V_ASSERT(V_IFF(parsec_lifo_is_empty(&L), vin.len0 == 0), "C30.is_empty.post.iff_abstract_stack_empty");
    V_ASSERT(V_IFF(parsec_lifo_nolock_is_empty(&L), vin.len0 == 0), "C30.nolock_is_empty.post.iff_abstract_stack_empty");
    parsec_list_item_t *r = parsec_lifo_pop(&L);
    post_seq_pop(r);
    V_CANARY("seq_pop");
}
void h_seq_try_pop(void)
{
    setup(OP_TRY_POP, 0);
    parsec_list_item_t *r = parsec_lifo_try_pop(&L);
    post_seq_pop(r);                 /* quiescent: try_pop behaves exactly as pop (never fails spuriously) */
    V_CANARY("seq_try_pop");
}

void h_seq_nolock(void)
{
    /* nolock_push x; then nolock_pop gives x back and restores the stack (LIFO law on the nolock variants) */
    setup(OP_PUSH, 0);
    g_op = OP_NONE;                  /* the nolock variants must not perform any CAS on the head */
    uint8_t e[N]; int elen;
    expect_after_push(e, &elen, &g_x, 1);
    parsec_lifo_nolock_push(&L, &pool[g_x]);
    V_ASSERT(elen <= N && matches(e, elen), "C30.nolock_push.post.stack_is_item_followed_by_old_stack");
    V_ASSERT(COUNTER >= vin.c0, "C30.nolock_push.post.counter_not_decreased");
    parsec_list_item_t *r = parsec_lifo_nolock_pop(&L);      /* PRE of nolock_pop: not empty (it dereferences the head) */
    V_ASSERT(r == &pool[g_x], "C30.nolock_pop.post.returns_the_top");
    V_ASSERT(matches(vin.s0, vin.len0), "C30.nolock_pop.post.stack_is_old_tail");
    V_ASSERT(g_lin == 0, "C30.nolock.post.no_atomic_step");
    V_CANARY("seq_nolock");
}
void h_seq_nolock_chain(void)
{
    setup(OP_CHAIN, 0);
    g_op = OP_NONE;
    uint8_t e[N]; int elen;
    expect_after_push(e, &elen, g_ring, g_ring_k);
    parsec_list_item_t *ring = build_ring();
    parsec_lifo_nolock_chain(&L, ring);
    V_ASSERT(elen <= N && matches(e, elen), "C30.nolock_chain.post.stack_is_ring_in_order_followed_by_old_stack");
    /* popping everything returns ring order first, then the old stack, then the LIFO is empty */
    for (int i = 0; i < N; i++) {
        if (i < elen) {
            parsec_list_item_t *r = parsec_lifo_nolock_pop(&L);
            V_ASSERT(r == &pool[e[i]], "C30.nolock_pop.post.pops_come_out_in_stack_order");
        }
    }
    V_ASSERT(parsec_lifo_nolock_is_empty(&L), "C30.nolock_pop.post.empty_after_popping_everything");
    V_CANARY("seq_nolock_chain");
}

/* a symbolic sequence of HLEN operations from a symbolic state, quiet environment, checked step by
 * step against an abstract stack kept by the harness (bounded stand-in for "behaves like a
 * sequential stack"; the unbounded statement is the induction over the per-call contracts above) */
void h_seq_history(void)
{
    setup(OP_NONE, 0);
    uint8_t a[N]; int alen = vin.len0;
    for (int i = 0; i < N; i++) a[i] = vin.s0[i];
    for (int t = 0; t < HLEN; t++) {
        uint8_t in[N];
        for (int i = 0; i < N; i++) in[i] = 0;
        for (int i = 0; i < N; i++) if (i < alen) in[a[i] % N] = 1;
        int op = vin.op[t] % 4;
        if (op == 0 || op == 1) {                 /* pop / try_pop */
            g_op = (op == 0) ? OP_POP : OP_TRY_POP;
            parsec_list_item_t *r = (op == 0) ? parsec_lifo_pop(&L) : parsec_lifo_try_pop(&L);
            if (alen == 0) V_ASSERT(r == NULL, "C30.history.post.pop_on_empty_gives_null");
            else {
                V_ASSERT(r == &pool[a[0] % N], "C30.history.post.pop_returns_most_recently_pushed_remaining_item");
                V_ASSERT(r != NULL && r->list_next == NULL, "C30.history.post.popped_item_is_unlinked");
                for (int i = 0; i + 1 < N; i++) a[i] = a[i + 1];
                alen--;
            }
        } else if (op == 2) {                     /* push a free item */
            uint8_t x = vin.opx[t];
            V_ASSUME(x < N && !in[x]);
            g_op = OP_PUSH; g_x = x; g_mine[x] = 1;
            parsec_lifo_push(&L, &pool[x]);
            for (int i = N - 1; i > 0; i--) a[i] = a[i - 1];
            a[0] = x; alen++;
        } else {                                  /* chain a ring of two free items */
            uint8_t x = vin.opx[t], y = vin.opy[t];
            V_ASSUME(x < N && y < N && x != y && !in[x] && !in[y]);
            g_op = OP_CHAIN; g_ring[0] = x; g_ring[1] = y; g_ring_k = 2; g_mine[x] = 1; g_mine[y] = 1;
            parsec_lifo_chain(&L, build_ring());
            for (int i = N - 1; i > 1; i--) a[i] = a[i - 2];
            a[0] = x; a[1] = y; alen += 2;
        }
        V_ASSERT(alen <= N && matches(a, alen), "C30.history.inv.concrete_lifo_equals_abstract_stack_after_every_operation");
        V_ASSERT(V_IFF(parsec_lifo_is_empty(&L), alen == 0), "C30.history.post.is_empty_iff_abstract_empty");
    }
    V_CANARY("seq_history");
}

/* ================================================================== */
/* rely/guarantee contracts: arbitrary interference at every atomic step */
/* ================================================================== */
static void post_rg_pop(parsec_list_item_t *r, int is_try)
{
    if (r != NULL) {
        V_ASSERT(g_lin == 1, "C30.pop.post.exactly_one_linearisation_point_on_non_null_return");
        V_ASSERT(g_popped >= 0 && r == ptr_of((uint8_t)g_popped), "C30.pop.post.returns_the_top_at_my_linearisation_point");
        V_ASSERT(r->list_next == NULL, "C30.pop.post.returned_item_list_next_is_null");
        V_ASSERT(g_popped >= 0 && g_mine[g_popped % N], "C30.pop.post.returned_item_is_mine_alone");
    } else {
        V_ASSERT(g_lin == 0, "C30.pop.post.no_linearisation_point_on_null_return");
        if (is_try) V_ASSERT(g_seen_len == 0 || g_fail == 1, "C30.try_pop.post.null_only_if_observed_empty_or_cas_failed");
        else        V_ASSERT(g_seen_len == 0, "C30.pop.post.null_only_if_observed_empty");
    }
    V_ASSERT(inv_ok(), "C30.pop.inv.stack_shape_holds_on_return");
}
void h_rg_try_pop(void)
{
    setup(OP_TRY_POP, 1);
    parsec_list_item_t *r = parsec_lifo_try_pop(&L);
    post_rg_pop(r, 1);
    V_CANARY("rg_try_pop");
}
void h_rg_pop(void)
{
    setup(OP_POP, 1);
    parsec_list_item_t *r = parsec_lifo_pop(&L);
    post_rg_pop(r, 0);
    V_CANARY("rg_pop");
}
void h_rg_push(void)
{
    setup(OP_PUSH, 1);
    parsec_lifo_push(&L, &pool[g_x]);
    V_ASSERT(g_lin == 1, "C30.push.post.exactly_one_linearisation_point");
    V_ASSERT(!g_mine[g_x], "C30.push.post.item_handed_over_to_the_stack");
    V_ASSERT(inv_ok(), "C30.push.inv.stack_shape_holds_on_return");
    V_CANARY("rg_push");
}
void h_rg_chain(void)
{
    setup(OP_CHAIN, 1);
    parsec_list_item_t *ring = build_ring();
    parsec_lifo_chain(&L, ring);
    V_ASSERT(g_lin == 1, "C30.chain.post.exactly_one_linearisation_point");
    V_ASSERT(inv_ok(), "C30.chain.inv.stack_shape_holds_on_return");
    V_CANARY("rg_chain");
}

/* Lemma for the one place where the real pop performs two plain shared reads with no fence or
 * atomic between them (item = head.item; then item->list_next), so that the wrappers cannot inject
 * an environment step there.  Finer-grained schedule, same Rely:
 *    c = counter;  ENV;  item = head.item;  ENV;  nxt = item->list_next;  ENV;  CAS(c,item -> c+1,nxt)
 * If the CAS succeeds (counter == c and head == item at that instant) then nxt is the true successor. */
void h_lemma_split_reads(void)
{
    setup(OP_NONE, 1);
    int64_t c = COUNTER;
    env_act();
    parsec_list_item_t *item = HEAD;
    V_ASSUME(item != NULL);
    env_act();
    parsec_list_item_t *nxt = (parsec_list_item_t *)item->list_next;
    env_act();
    V_ASSUME(COUNTER == c && HEAD == item);                    /* my CAS succeeds */
    V_ASSERT(g_len >= 1 && item == ghost_top(), "C30.pop.lemma.split_reads_item_is_the_top_when_cas_succeeds");
    V_ASSERT(nxt == ghost_successor(), "C30.pop.lemma.split_reads_next_is_the_true_successor_when_cas_succeeds");
    V_CANARY("lemma_split_reads");
}
