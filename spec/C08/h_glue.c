/* C08 (part 1) - the dispatch glue of parsec/scheduling.c never loses or duplicates a ready task.
 *
 * Contracts (route harness) on the REAL functions of parsec/scheduling.c, file included verbatim:
 *   __parsec_schedule, __parsec_schedule_vp, __parsec_schedule_flush_private, __parsec_reschedule
 * against a RECORDING scheduler module (parsec_current_scheduler->module.schedule = stub that checks that it is
 * handed a well-formed ring and counts, per task of the pool, how often the task was handed over).
 *
 * View: for every pool task i   handed[i] = number of times i was a member of a ring given to module.schedule,
 *                               retained(i) = (i is es->next_task of the submitting stream).
 *  __parsec_schedule(es, R, d)      ensures module.schedule called exactly once with (es, R, d); result passed on
 *  __parsec_schedule_vp(sub, TR, d) requires every non-NULL TR[vp] a well-formed ring of not-yet-handed tasks, module.schedule
 *                                   answers 0 (every module of /repo does: obligation *.schedule.post.returns_success of part 2)
 *                                   ensures for every task i of every ring: handed[i] + retained(i) == 1     (no loss, no duplicate)
 *                                           retained(i) only if i is the head of the ring of the submitting stream's own VP,
 *                                           sub is a computing stream, keep_highest_priority_task, d == 0, next_task was NULL
 *                                           a next_task that was non-NULL is not overwritten
 *                                           the ring of VP v is handed to a stream OF VP v (stream 0, or sub for sub's own VP in
 *                                           retention mode) with the caller's distance, as a well-formed ring
 *                                           TR[vp] == NULL for every vp, returns 0
 *  __parsec_schedule_flush_private(es) requires next_task NULL or ONE retained task (links possibly stale, as ring_chop leaves them)
 *                                   ensures next_task == NULL; that task handed once to es, distance 0, as a well-formed SINGLETON
 *                                           ring, no other task handed over (or nothing handed when next_task was NULL)
 *  __parsec_reschedule(es, t)       requires t singleton ensures t handed exactly once, distance 0, to an existing stream
 *                                   (index < nb_cores of its VP) of the context
 * Shapes (number of VPs, streams per VP, ring lengths) are fixed per cbmc process: -DNVP -DNC0 -DNC1 -DK0 -DK1.
 */
#include "verif.h"
#include "parsec/parsec_config.h"
#include "parsec/parsec_internal.h"
#include "parsec/scheduling.c"

#ifndef NVP
#define NVP 2
#endif
#ifndef NC0
#define NC0 2
#endif
#ifndef NC1
#define NC1 1
#endif
#ifndef K0
#define K0 2
#endif
#ifndef K1
#define K1 1
#endif
/* submitter, fixed per process: 0: NULL, 1: communication thread, 2 + 2*vp + s: computing stream s of VP vp */
#ifndef SUB
#define SUB 3
#endif
/* what parsec_my_execution_stream() answers (2 + 2*vp + s): the caller's own stream, or stream 0/0 for a NULL submitter */
#define MY (SUB >= 2 ? SUB : 2)
#define NPOOL 7                 /* 0..K0-1 ring of VP0, K0..K0+K1-1 ring of VP1, 6 = the "other" task (old next_task) */
#define OTHER 6
#define MAXCALLS 4

struct vin {
    uint8_t  keep;              /* parsec_runtime_keep_highest_priority_task                                   */
    uint8_t  next_set;          /* submitting stream already has a next_task                                   */
    int32_t  distance;
    int32_t  sched_rc;          /* h_schedule only: answer of the module                                       */
    int32_t  prio[NPOOL];
} vin;
#include "verif_vin.h"

static parsec_task_t tk0, tk1, tk2, tk3, tk4, tk5, tk6;
static parsec_task_t *const PT[NPOOL] = { &tk0, &tk1, &tk2, &tk3, &tk4, &tk5, &tk6 };
static parsec_execution_stream_t es00, es01, es10, es11, es_comm;
static parsec_execution_stream_t *const ES[2][2] = { { &es00, &es01 }, { &es10, &es11 } };
static const int NC[2] = { NC0, NC1 };
static parsec_context_t *ctx;
static parsec_vp_t *vps[2];
static parsec_sched_module_t sched;
static int c08_dummy_object;

/* ---- ghost ---- */
static int g_calls;
static parsec_execution_stream_t *g_es[MAXCALLS];
static parsec_task_t *g_head[MAXCALLS];
static int32_t g_dist[MAXCALLS];
static int g_len[MAXCALLS];
static int g_ring_ok;                      /* every ring handed over was a well-formed ring of pool tasks */
static int g_handed[NPOOL];
static int g_call_of[NPOOL];               /* index of the (last) call that handed task i                  */
static int32_t g_rc;

static int task_idx(const volatile void *p)
{
    for (int i = 0; i < NPOOL; i++) if (p == (const volatile void *)PT[i]) return i;
    return -1;
}

/* the recording scheduler module */
static int stub_schedule(parsec_execution_stream_t *e, parsec_task_t *ring, int32_t distance)
{
    int c = g_calls++;
    if (c < MAXCALLS) { g_es[c] = e; g_head[c] = ring; g_dist[c] = distance; }
    /* walk the ring: at most NPOOL members, closes on its head, prev mirrors next */
    const volatile parsec_list_item_t *cur = &ring->super;
    int n = 0, closed = 0;
    for (int k = 0; k < NPOOL; k++) {
        int i = task_idx((const volatile void *)cur);
        if (i < 0) { g_ring_ok = 0; break; }
        g_handed[i]++; g_call_of[i] = c; n++;
        const volatile parsec_list_item_t *nx = PT[i]->super.list_next;
        int j = task_idx((const volatile void *)nx);
        if (j < 0 || PT[j]->super.list_prev != cur) { g_ring_ok = 0; break; }
        cur = nx;
        if (cur == &ring->super) { closed = 1; break; }
    }
    if (!closed) g_ring_ok = 0;
    if (c < MAXCALLS) g_len[c] = n;
    return g_rc;
}

/* ---- externals of scheduling.c (trusted stubs) ---- */
void parsec_pins_instrument(struct parsec_execution_stream_s *e, PARSEC_PINS_FLAG f, struct parsec_task_s *t)
{ (void)e; (void)f; (void)t; }
static parsec_execution_stream_t *stream_of(unsigned code)
{
    if (code == 1) return &es_comm;
    if (code >= 2 && code < 6) return ES[(code - 2) / 2][(code - 2) % 2];
    return NULL;
}
parsec_execution_stream_t *parsec_my_execution_stream(void) { return stream_of(MY); }
#ifndef VERIF_REPLAY
void parsec_output(int id, const char *fmt, ...) { (void)id; (void)fmt; }
#endif

static void build_ring(int lo, int k)
{
    for (int i = 0; i < k; i++) {
        PT[lo + i]->super.list_next = &PT[lo + (i + 1 < k ? i + 1 : 0)]->super;
        PT[lo + i]->super.list_prev = &PT[lo + (i > 0 ? i - 1 : k - 1)]->super;
    }
}

static void build(void)
{
    ctx = (parsec_context_t *)malloc(sizeof(parsec_context_t) + sizeof(parsec_vp_t *));
    for (int v = 0; v < 2; v++) {
        vps[v] = (parsec_vp_t *)malloc(sizeof(parsec_vp_t) + sizeof(parsec_execution_stream_t *));
        vps[v]->parsec_context = ctx; vps[v]->vp_id = v; vps[v]->nb_cores = NC[v];
        for (int s = 0; s < 2; s++) {
            vps[v]->execution_streams[s] = ES[v][s];
            ES[v][s]->virtual_process = vps[v]; ES[v][s]->th_id = s; ES[v][s]->next_task = NULL;
            ES[v][s]->scheduler_object = &c08_dummy_object;          /* computing streams own a scheduler object */
        }
        ctx->virtual_processes[v] = vps[v];
    }
    ctx->nb_vp = NVP;
    es_comm.virtual_process = vps[0]; es_comm.th_id = 0; es_comm.scheduler_object = NULL;   /* as remote_dep_mpi.c sets it up */
    es_comm.next_task = NULL;
    sched.module.schedule = stub_schedule;
    parsec_current_scheduler = &sched;
    for (int i = 0; i < NPOOL; i++) { PT[i]->priority = vin.prio[i]; g_handed[i] = 0; g_call_of[i] = -1; }
    PT[OTHER]->super.list_next = PT[OTHER]->super.list_prev = &PT[OTHER]->super;
    g_calls = 0; g_ring_ok = 1; g_rc = 0;
    /* valid stream codes only */
    V_ASSUME(MY >= 2 && MY < 6);
    V_ASSUME((MY - 2) / 2 < NVP && (MY - 2) % 2 < NC[(MY - 2) / 2]);
}

/* ------------------------------------------------------------------ */
void h_schedule(void)
{
    vin_load(); build();
    build_ring(0, K0 ? K0 : 1);
    g_rc = vin.sched_rc;
    int rc = __parsec_schedule(&es01, PT[0], vin.distance);
    V_ASSERT(g_calls == 1, "C08.__parsec_schedule.post.module_schedule_called_exactly_once");
    V_ASSERT(g_es[0] == &es01 && g_head[0] == PT[0] && g_dist[0] == vin.distance,
             "C08.__parsec_schedule.post.stream_ring_distance_passed_unchanged");
    V_ASSERT(g_ring_ok && g_len[0] == (K0 ? K0 : 1), "C08.__parsec_schedule.post.ring_handed_over_intact");
    V_ASSERT(rc == vin.sched_rc, "C08.__parsec_schedule.post.returns_module_result");
    V_CANARY("schedule");
}

/* ------------------------------------------------------------------ */
void h_schedule_vp(void)
{
    vin_load(); build();
    V_ASSUME(SUB < 6);
    parsec_execution_stream_t *sub = stream_of(SUB);
    if (SUB >= 2) V_ASSUME((SUB - 2) / 2 < NVP && (SUB - 2) % 2 < NC[(SUB - 2) / 2]);
    int sub_vp = SUB >= 2 ? (SUB - 2) / 2 : -1;             /* VP of a computing submitter */
    parsec_runtime_keep_highest_priority_task = vin.keep;
    if (sub != NULL && vin.next_set) sub->next_task = PT[OTHER];
    parsec_task_t *old_next = sub ? sub->next_task : NULL;

    parsec_task_t *rings[2];
    const int lo[2] = { 0, K0 }, kk[2] = { K0, K1 };
    for (int v = 0; v < 2; v++) {
        if (kk[v]) build_ring(lo[v], kk[v]);
        rings[v] = kk[v] ? PT[lo[v]] : NULL;
    }

    int rc = __parsec_schedule_vp(sub, rings, vin.distance);

    int retain_mode = sub != NULL && vin.keep && vin.distance == 0 && SUB >= 2;
    V_ASSERT(rc == 0, "C08.__parsec_schedule_vp.post.returns_success");
    V_ASSERT(g_ring_ok, "C08.__parsec_schedule_vp.post.every_ring_handed_over_is_well_formed");
    for (int v = 0; v < NVP; v++) {
        V_ASSERT(rings[v] == NULL, "C08.__parsec_schedule_vp.post.task_rings_entry_cleared");
        for (int i = lo[v]; i < lo[v] + kk[v]; i++) {
            int retained = sub != NULL && sub->next_task == PT[i];
            V_ASSERT(g_handed[i] + retained == 1, "C08.__parsec_schedule_vp.post.each_task_handed_exactly_once_or_retained_as_next_task");
            V_ASSERT(V_IMPLIES(retained, retain_mode && v == sub_vp && i == lo[v] && old_next == NULL),
                     "C08.__parsec_schedule_vp.post.only_head_of_own_vp_ring_retained_when_next_task_was_NULL_and_distance_0");
            V_ASSERT(V_IMPLIES(retain_mode && v == sub_vp && i == lo[v] && old_next == NULL, retained),
                     "C08.__parsec_schedule_vp.post.head_of_own_vp_ring_is_retained_in_retention_mode");
            if (g_handed[i] == 1) {
                int c = g_call_of[i];
                V_ASSERT(c >= 0 && c < MAXCALLS, "C08.__parsec_schedule_vp.post.at_most_one_call_per_vp");
                parsec_execution_stream_t *tgt = g_es[c >= 0 && c < MAXCALLS ? c : 0];
                V_ASSERT(tgt->virtual_process == vps[v], "C08.__parsec_schedule_vp.post.ring_handed_to_a_stream_of_its_own_vp");
                V_ASSERT(tgt == ((retain_mode && v == sub_vp) ? sub : ES[v][0]),
                         "C08.__parsec_schedule_vp.post.target_is_stream_0_or_the_submitter_for_its_own_vp");
                V_ASSERT(g_dist[c >= 0 && c < MAXCALLS ? c : 0] == vin.distance, "C08.__parsec_schedule_vp.post.distance_passed_unchanged");
            }
        }
    }
    V_ASSERT(g_calls <= NVP, "C08.__parsec_schedule_vp.post.at_most_one_module_call_per_vp");
    V_ASSERT(V_IMPLIES(old_next != NULL, sub->next_task == old_next), "C08.__parsec_schedule_vp.post.non_NULL_next_task_not_overwritten");
    V_ASSERT(g_handed[OTHER] == 0, "C08.__parsec_schedule_vp.post.frame_old_next_task_not_handed_over");
    for (int i = 0; i < NPOOL; i++) V_ASSERT(PT[i]->priority == vin.prio[i], "C08.__parsec_schedule_vp.post.frame_priorities_not_written");
    V_CANARY("schedule_vp");
}

/* ------------------------------------------------------------------ */
void h_flush_private(void)
{
    vin_load(); build();
    /* PRE: next_task NULL, or ONE retained task whose links are whatever parsec_list_item_ring_chop left behind when
     * __parsec_schedule_vp cut it off a ring of K0 tasks (stale outside PARSEC_DEBUG_PARANOID) */
    if (vin.next_set) {
        build_ring(0, K0 ? K0 : 1);
        (void)parsec_list_item_ring_chop(&PT[0]->super);
        es01.next_task = PT[0];
    }
    int rc = __parsec_schedule_flush_private(&es01);
    V_ASSERT(es01.next_task == NULL, "C08.__parsec_schedule_flush_private.post.next_task_cleared");
    V_ASSERT(g_calls == (vin.next_set ? 1 : 0), "C08.__parsec_schedule_flush_private.post.handed_once_iff_there_was_a_next_task");
    if (vin.next_set) {
        V_ASSERT(g_es[0] == &es01 && g_head[0] == PT[0] && g_dist[0] == 0, "C08.__parsec_schedule_flush_private.post.handed_to_own_stream_distance_0");
        V_ASSERT(g_ring_ok && g_len[0] == 1, "C08.__parsec_schedule_flush_private.post.retained_task_is_handed_over_as_a_well_formed_singleton_ring");
    }
    for (int i = 1; i < NPOOL; i++)
        V_ASSERT(g_handed[i] == 0, "C08.__parsec_schedule_flush_private.post.no_other_task_handed_over");
    V_ASSERT(rc == PARSEC_SUCCESS, "C08.__parsec_schedule_flush_private.post.returns_success");
    V_CANARY("flush_private");
}

/* composition: the task retained by __parsec_schedule_vp, flushed later by __parsec_schedule_flush_private, must be handed
 * to the module exactly once and nothing else with it */
void h_vp_then_flush(void)
{
    vin_load(); build();
    parsec_runtime_keep_highest_priority_task = 1;
    parsec_task_t *rings[2] = { NULL, NULL };
    build_ring(0, K0);
    rings[0] = PT[0];
    int rc = __parsec_schedule_vp(&es01, rings, 0);
    V_ASSERT(rc == 0 && es01.next_task == PT[0], "C08.__parsec_schedule_vp.post.head_retained");
    rc = __parsec_schedule_flush_private(&es01);
    V_ASSERT(g_ring_ok, "C08.__parsec_schedule_flush_private.post.retained_task_is_handed_over_as_a_well_formed_ring");
    for (int i = 0; i < K0; i++)
        V_ASSERT(g_handed[i] == 1, "C08.__parsec_schedule_flush_private.post.after_flush_every_task_was_handed_exactly_once");
    V_CANARY("vp_then_flush");
}

/* ------------------------------------------------------------------ */
void h_reschedule(void)
{
    vin_load(); build();
    V_ASSUME(SUB >= 2 && SUB < 6);
    V_ASSUME((SUB - 2) / 2 < NVP && (SUB - 2) % 2 < NC[(SUB - 2) / 2]);
    parsec_execution_stream_t *sub = stream_of(SUB);
    build_ring(0, 1);
    g_rc = vin.sched_rc;
    int rc = __parsec_reschedule(sub, PT[0]);
    V_ASSERT(g_calls == 1 && g_handed[0] == 1, "C08.__parsec_reschedule.post.task_handed_exactly_once");
    V_ASSERT(g_ring_ok && g_len[0] == 1 && g_head[0] == PT[0], "C08.__parsec_reschedule.post.handed_as_singleton");
    V_ASSERT(g_dist[0] == 0, "C08.__parsec_reschedule.post.distance_0");
    int found = 0;
    for (int v = 0; v < NVP; v++) for (int s = 0; s < NC[v]; s++) if (g_es[0] == ES[v][s]) found = 1;
    V_ASSERT(found, "C08.__parsec_reschedule.post.target_is_an_existing_stream_of_the_context");
    V_ASSERT(rc == vin.sched_rc, "C08.__parsec_reschedule.post.returns_module_result");
    V_CANARY("reschedule");
}
