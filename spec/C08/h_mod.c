/* C08 (part 2) - a scheduler module never loses or duplicates a ready task.
 *
 * The REAL module file parsec/mca/sched/<M>/sched_<M>_module.c is included verbatim (-DMOD_<M>), together with the real
 * object system (parsec_object.c), the real list / dequeue / lifo classes and, for lfq, the real hbbuffer.c.
 * Contracts (route harness) on the static functions flow_<M>_init, sched_<M>_schedule, sched_<M>_select.
 *
 * View of the module state for one VP: the multiset Q of task pointers the module holds (queues of all streams, parent
 * stores, system queue).  It is tracked as GHOST state st[i] per pool task: 0 = never handed over, 1 = held (handed to
 * schedule(), not yet returned), 2 = returned by a select().  held = |{i : st[i] == 1}| = |Q|.
 *
 *  flow_M_init(es, barrier)   called once per stream of the VP (barrier stubbed, streams run one after the other, stream 0 first)
 *                             ensures returns PARSEC_SUCCESS, every stream owns a scheduler object, Q = {} (first select: NULL)
 *  sched_M_schedule(es, R, d) requires R a well-formed ring of K >= 1 tasks with st == 0, es a stream of the VP, 0 <= d <= DMAX
 *                             ensures  returns PARSEC_SUCCESS; Q' = Q + items(R) (ghost: st := 1 for the members; what the module
 *                                      really holds is observed by the selects that follow); task identity / priority / task_class
 *                                      not written (rnd: the priority IS overwritten by design - random priorities - excluded)
 *  sched_M_select(es, &d)     requires es any stream of the VP
 *                             ensures  returns NULL <=> Q = {}          ("eventually returned": a non-empty Q never yields NULL,
 *                                                                         on whichever stream of the VP the select runs)
 *                                      returns t != NULL => t is a pool task with st[t] == 1 (handed over, not yet returned:
 *                                      no duplicate, no invented task), Q' = Q - {t}
 * The three contracts are chained along one HISTORY from the freshly initialised module: -DSCRIPT is a straight-line sequence
 * of S(k) (schedule the next k pool tasks as one ring) and X (select); the stream of every operation, every distance and every
 * priority is symbolic.  Every script ends with held+1 selects, so that the last obligation of a run is "all tasks handed over were
 * returned exactly once and the module is empty again".  History shape (script), number of streams are fixed per cbmc process.
 * Concurrency is NOT modelled: atomics and locks are the real code, run without interference.
 */
#include "verif.h"
#include <stddef.h>
#include <stdint.h>
#include <stdlib.h>
#include "parsec/parsec_config.h"
#include "parsec/parsec_internal.h"
#include "parsec/class/barrier.h"

#ifndef NS
#define NS 2                    /* streams of the VP */
#endif
#ifndef SCRIPT
#define SCRIPT S(2) S(1) X X X X
#endif
#ifndef DMAX
#define DMAX 1000000
#endif
#define NPOOL 6
#define MAXOPS 16

struct vin {
    int32_t  prio[NPOOL];
    uint8_t  es[MAXOPS];        /* stream of operation k          */
    int32_t  dist[MAXOPS];      /* distance of schedule k         */
    int32_t  dist_out0;
    int32_t  rnd[NPOOL];        /* answers of rand()              */
    uint8_t  tc_flags;          /* task class flags (gd looks at PARSEC_HIGH_PRIORITY_TASK) */
} vin;
#include "verif_vin.h"

/* ---- stubs (trusted base) ---- */
static int g_barrier_calls;
int parsec_barrier_wait(parsec_barrier_t *b) { (void)b; g_barrier_calls++; return 0; }
static int g_rand_calls;
#ifndef VERIF_REPLAY
int rand(void)
{
    int k = g_rand_calls++;
    int r = vin.rnd[k < NPOOL ? k : 0];
    __CPROVER_assume(r >= 0);
    return r;
}
void parsec_output(int id, const char *fmt, ...) { (void)id; (void)fmt; }
int parsec_hwloc_nb_levels(void) { return -1; }          /* "hwloc cannot compute the hierarchy" branch of flow_lfq_init */
int parsec_hwloc_distance(int a, int b) { (void)a; (void)b; return 0; }
#endif

#include "parsec/class/parsec_object.c"
#include "parsec/class/parsec_list.c"

/* CBMC resolves the constructor / destructor calls of the object system (function pointers read from the class table)
 * to EVERY address-taken function of a compatible type, and `void sched_M_remove(parsec_context_t *)` counts as
 * compatible with `void (*)(parsec_object_t *)`: symbolic execution then walks into the module tear-down from every
 * constructor call.  sched_M_remove is not under contract here; the preprocessor trick below leaves the module text
 * untouched but makes the `remove` slot of the module descriptor point to an empty function (the real body is
 * compiled under another name and is unreachable). */

#if defined(MOD_ap)
static void sched_ap_remove(parsec_context_t *master) { (void)master; }
#define sched_ap_remove(m) c08_real_sched_ap_remove(m)
#include "parsec/mca/sched/ap/sched_ap_module.c"
#undef sched_ap_remove
#define M_INIT flow_ap_init
#define M_SCHEDULE sched_ap_schedule
#define M_SELECT sched_ap_select
#define MN "ap"
#elif defined(MOD_ip)
static void sched_ip_remove(parsec_context_t *master) { (void)master; }
#define sched_ip_remove(m) c08_real_sched_ip_remove(m)
#include "parsec/mca/sched/ip/sched_ip_module.c"
#undef sched_ip_remove
#define M_INIT flow_ip_init
#define M_SCHEDULE sched_ip_schedule
#define M_SELECT sched_ip_select
#define MN "ip"
#elif defined(MOD_rnd)
static void sched_rnd_remove(parsec_context_t *master) { (void)master; }
#define sched_rnd_remove(m) c08_real_sched_rnd_remove(m)
#include "parsec/mca/sched/rnd/sched_rnd_module.c"
#undef sched_rnd_remove
#define M_INIT flow_rnd_init
#define M_SCHEDULE sched_rnd_schedule
#define M_SELECT sched_rnd_select
#define MN "rnd"
#define PRIO_REWRITTEN 1
#elif defined(MOD_spq)
static void sched_spq_remove(parsec_context_t *master) { (void)master; }
#define sched_spq_remove(m) c08_real_sched_spq_remove(m)
#include "parsec/mca/sched/spq/sched_spq_module.c"
#undef sched_spq_remove
#define M_INIT flow_spq_init
#define M_SCHEDULE sched_spq_schedule
#define M_SELECT sched_spq_select
#define MN "spq"
#elif defined(MOD_gd)
#include "parsec/class/parsec_dequeue.c"
static void sched_gd_remove(parsec_context_t *master) { (void)master; }
#define sched_gd_remove(m) c08_real_sched_gd_remove(m)
#include "parsec/mca/sched/gd/sched_gd_module.c"
#undef sched_gd_remove
#define M_INIT flow_gd_init
#define M_SCHEDULE sched_gd_schedule
#define M_SELECT sched_gd_select
#define MN "gd"
#elif defined(MOD_ll)
#include "parsec/class/parsec_lifo.c"
static void sched_ll_remove(parsec_context_t *master) { (void)master; }
#define sched_ll_remove(m) c08_real_sched_ll_remove(m)
#include "parsec/mca/sched/ll/sched_ll_module.c"
#undef sched_ll_remove
#define M_INIT flow_ll_init
#define M_SCHEDULE sched_ll_schedule
#define M_SELECT sched_ll_select
#define MN "ll"
#elif defined(MOD_lfq)
#include "parsec/class/parsec_dequeue.c"
#include "parsec/hbbuffer.c"
static void sched_lfq_remove(parsec_context_t *master) { (void)master; }
#define sched_lfq_remove(m) c08_real_sched_lfq_remove(m)
#include "parsec/mca/sched/lfq/sched_lfq_module.c"
#undef sched_lfq_remove
#define M_INIT flow_lfq_init
#define M_SCHEDULE sched_lfq_schedule
#define M_SELECT sched_lfq_select
#define MN "lfq"
#else
#error "define MOD_<module>"
#endif
#ifndef PRIO_REWRITTEN
#define PRIO_REWRITTEN 0
#endif


/* ---- the freshly initialised module state, written by hand on typed static objects (history jobs) and checked against
 *      what the real flow_M_init builds (init jobs, M_INIT_SHAPE_CHECK) ---- */
static parsec_execution_stream_t es0, es1;
#define LIST_EMPTY_UNLOCKED(l) ((l)->ghost_element.list_next == &(l)->ghost_element && \
                                (l)->ghost_element.list_prev == &(l)->ghost_element && (l)->atomic_lock == 0)
#define LIST_MAKE_EMPTY(l) do { (l)->ghost_element.list_next = (l)->ghost_element.list_prev = &(l)->ghost_element; (l)->atomic_lock = 0; } while (0)
#if defined(MOD_ap) || defined(MOD_ip) || defined(MOD_rnd) || defined(MOD_gd) || defined(MOD_spq)
#if defined(MOD_spq)
static parsec_list_with_size_t c08_L;
#define C08_LIST(p) (&((parsec_list_with_size_t *)(p))->super)
#else
static parsec_list_t c08_L;
#define C08_LIST(p) ((parsec_list_t *)(p))
#endif
#define M_BARRIERS 1
#define M_HAND_INIT() do { LIST_MAKE_EMPTY(C08_LIST(&c08_L)); es0.scheduler_object = &c08_L; es1.scheduler_object = NS > 1 ? (void *)&c08_L : NULL; } while (0)
#define M_INIT_SHAPE_CHECK() do { \
    V_ASSERT(LIST_EMPTY_UNLOCKED(C08_LIST(es0.scheduler_object)), "C08.flow_" MN "_init.post.one_empty_unlocked_queue"); \
    V_ASSERT(NS == 1 || es1.scheduler_object == es0.scheduler_object, "C08.flow_" MN "_init.post.streams_of_the_vp_share_the_queue"); } while (0)
#elif defined(MOD_ll)
static parsec_lifo_with_local_counter_t c08_F0, c08_F1;
#define M_BARRIERS 1
#define LIFO_MAKE_EMPTY(f) do { (f)->lifo.alignment = PARSEC_LIFO_ALIGNMENT_DEFAULT; (f)->lifo.lifo_head.data.item = NULL; \
                                (f)->lifo.lifo_head.data.guard.counter = 0; } while (0)
#define M_HAND_INIT() do { LIFO_MAKE_EMPTY(&c08_F0); LIFO_MAKE_EMPTY(&c08_F1); es0.scheduler_object = &c08_F0; \
                           es1.scheduler_object = NS > 1 ? (void *)&c08_F1 : NULL; } while (0)
#define M_INIT_SHAPE_CHECK() do { \
    V_ASSERT(((parsec_lifo_with_local_counter_t *)es0.scheduler_object)->lifo.lifo_head.data.item == NULL, "C08.flow_" MN "_init.post.each_stream_owns_an_empty_lifo"); \
    V_ASSERT(NS == 1 || ((parsec_lifo_with_local_counter_t *)es1.scheduler_object)->lifo.lifo_head.data.item == NULL, "C08.flow_" MN "_init.post.each_stream_owns_an_empty_lifo"); \
    V_ASSERT(NS == 1 || es1.scheduler_object != es0.scheduler_object, "C08.flow_" MN "_init.post.lifos_are_distinct"); } while (0)
#else   /* lfq: no hand-written state, the real flow_lfq_init is always run (calloc'ed objects of constant size) */
#define REAL_INIT 1
#define M_BARRIERS 2
#define M_INIT_SHAPE_CHECK() do { \
    V_ASSERT(PARSEC_MCA_SCHED_LOCAL_QUEUES_OBJECT(&es0)->task_queue != NULL && PARSEC_MCA_SCHED_LOCAL_QUEUES_OBJECT(&es0)->system_queue != NULL, \
             "C08.flow_" MN "_init.post.stream_owns_a_bounded_buffer_and_sees_the_system_queue"); } while (0)
#endif

/* ---- pool, streams ---- */
static parsec_task_t tk0, tk1, tk2, tk3, tk4, tk5;
static parsec_task_t *const PT[NPOOL] = { &tk0, &tk1, &tk2, &tk3, &tk4, &tk5 };
static parsec_task_class_t c08_tc;
static parsec_execution_stream_t *const ES[2] = { &es0, &es1 };
static parsec_vp_t *vp;
static parsec_barrier_t bar;

/* ---- ghost ---- */
static int st[NPOOL];
static int g_next, g_held, g_op;

static int task_idx(const volatile void *p)
{
    for (int i = 0; i < NPOOL; i++) if (p == (const volatile void *)PT[i]) return i;
    return -1;
}

static void setup(void)
{
    vp = (parsec_vp_t *)malloc(sizeof(parsec_vp_t) + sizeof(parsec_execution_stream_t *));
    vp->nb_cores = NS; vp->vp_id = 0;
    for (int s = 0; s < 2; s++) {
        vp->execution_streams[s] = ES[s];
        ES[s]->virtual_process = vp; ES[s]->th_id = s; ES[s]->scheduler_object = NULL; ES[s]->next_task = NULL;
    }
    c08_tc.flags = vin.tc_flags;
    for (int i = 0; i < NPOOL; i++) { PT[i]->priority = vin.prio[i]; PT[i]->task_class = &c08_tc; st[i] = 0; }
    g_next = g_held = g_op = 0; g_barrier_calls = 0; g_rand_calls = 0;
#ifdef REAL_INIT
    for (int s = 0; s < NS; s++) {
        int rc = M_INIT(ES[s], (struct parsec_barrier_t *)&bar);
        V_ASSERT(rc == PARSEC_SUCCESS, "C08.flow_" MN "_init.post.returns_success");
        V_ASSERT(ES[s]->scheduler_object != NULL, "C08.flow_" MN "_init.post.stream_owns_a_scheduler_object");
    }
    V_ASSERT(g_barrier_calls == NS * M_BARRIERS, "C08.flow_" MN "_init.post.each_stream_passes_each_barrier_once");
    M_INIT_SHAPE_CHECK();
#else
    M_HAND_INIT();          /* the state flow_M_init leaves behind, on typed static objects (shape discharged by the init.* jobs) */
#endif
}

static parsec_execution_stream_t *op_stream(void)
{
    unsigned s = vin.es[g_op];
    V_ASSUME(s < NS);
#if NS == 1
    return &es0;
#else
    return s ? &es1 : &es0;
#endif
}

static void op_schedule(int k)
{
    parsec_execution_stream_t *e = op_stream();
    int32_t d = vin.dist[g_op];
    V_ASSUME(d >= 0 && d <= DMAX);
    int lo = g_next;
    for (int i = 0; i < k; i++) {                        /* PRE: a well-formed ring of k tasks never handed over before */
        PT[lo + i]->super.list_next = &PT[lo + (i + 1 < k ? i + 1 : 0)]->super;
        PT[lo + i]->super.list_prev = &PT[lo + (i > 0 ? i - 1 : k - 1)]->super;
    }
    int rc = M_SCHEDULE(e, PT[lo], d);
    V_ASSERT(rc == PARSEC_SUCCESS, "C08.sched_" MN "_schedule.post.returns_success");
    for (int i = 0; i < k; i++) { st[lo + i] = 1; g_held++; }   /* ghost: Q' = Q + items(ring) */
    for (int i = 0; i < NPOOL; i++) {
        V_ASSERT(PT[i]->task_class == &c08_tc, "C08.sched_" MN "_schedule.post.frame_task_class_not_written");
        if (!PRIO_REWRITTEN) V_ASSERT(PT[i]->priority == vin.prio[i], "C08.sched_" MN "_schedule.post.frame_priority_not_written");
    }
    g_next += k; g_op++;
}

static void op_select(void)
{
    parsec_execution_stream_t *e = op_stream();
    int32_t d = vin.dist_out0;
    parsec_task_t *t = M_SELECT(e, &d);
    int r = task_idx(t);
    V_ASSERT(V_IMPLIES(g_held > 0, t != NULL), "C08.sched_" MN "_select.post.non_empty_module_never_answers_NULL_no_task_lost");
    V_ASSERT(V_IMPLIES(g_held == 0, t == NULL), "C08.sched_" MN "_select.post.empty_module_answers_NULL");
    if (t != NULL) {
        V_ASSERT(r >= 0, "C08.sched_" MN "_select.post.returns_a_task_that_was_handed_over");
        int rr = r >= 0 ? r : 0;
        V_ASSERT(st[rr] == 1, "C08.sched_" MN "_select.post.task_returned_exactly_once_no_duplicate");
        if (st[rr] == 1) g_held--;
        st[rr] = 2;
        if (!PRIO_REWRITTEN) V_ASSERT(PT[rr]->priority == vin.prio[rr], "C08.sched_" MN "_select.post.frame_priority_not_written");
    }
    g_op++;
}

#define S(k) op_schedule(k);
#define X    op_select();

void h_history(void)
{
    vin_load();
    setup();
    SCRIPT
    V_ASSERT(g_held == 0, "C08.sched_" MN ".lemma.history_ends_with_empty_module");
    for (int i = 0; i < NPOOL; i++)
        V_ASSERT(st[i] == (i < g_next ? 2 : 0), "C08.sched_" MN ".lemma.every_task_handed_over_was_returned_exactly_once");
    V_CANARY("history");
}
