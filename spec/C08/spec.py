from vlib import Job

GLUE = ["__parsec_schedule", "__parsec_schedule_vp", "__parsec_schedule_flush_private", "__parsec_reschedule"]
MODS = ["ap", "ip", "rnd", "spq", "gd"]          # covered modules (history jobs); ll, lfq, lhq, ltq, pbq, llp: NOT covered
MODFN = [f % m for m in MODS for f in ("sched_%s_schedule", "sched_%s_select")] + ["lifo_chain_sorted", "lifo_merge_ring",
         "parsec_hbbuffer_push_all_by_priority", "parsec_hbbuffer_push_all", "parsec_hbbuffer_pop_best"]
# recursion / class-table loops of the object system, spin lock without contention
US = {"expand_array.0": 11, "parsec_atomic_lock.0": 2, "parsec_obj_destruct_and_free": 1, "parsec_obj_run_destructors": 1,
      "parsec_obj_destruct": 1}


def valid_subs(nvp, nc0, nc1):
    nc = (nc0, nc1)
    return [0, 1] + [2 + 2 * v + s for v in range(nvp) for s in range(nc[v])]


def scripts(tier):
    """history shapes: S(k) = schedule a ring of k new tasks, X = select; each ends with held+1 selects"""
    if tier != "thorough":
        return ["X S(1) X X", "S(2) S(1) X X X X", "S(3) X X X X", "S(1) X S(2) X X S(1) X X"]
    out = ["X S(1) X X"]
    # all ways to hand over <= 4 tasks in <= 3 rings of <= 3 tasks, with 0 or 1 select between two schedules, then drain
    def rec(pref, held, used, nsch):
        if nsch >= 1:
            out.append(" ".join(pref + ["X"] * (held + 1)))
        if nsch == 3:
            return
        for k in (1, 2, 3):
            if used + k > 4:
                continue
            for pre in (0, 1):
                if pre and (held == 0 or nsch == 0):
                    continue
                rec(pref + ["X"] * pre + ["S(%d)" % k], held - pre + k, used + k, nsch + 1)
    rec([], 0, 0, 0)
    return sorted(set(out), key=lambda s: (len(s), s))


def jobs(tier):
    full = tier == "thorough"
    J = []
    # ---------------- part 1: scheduling.c glue against a recording module
    def gd(nvp, nc0, nc1, k0, k1, sub=3):
        return {"NVP": nvp, "NC0": nc0, "NC1": nc1, "K0": k0, "K1": k1, "SUB": sub}

    def gb(nvp, nc0, nc1, k0, k1, sub):
        return ("shape fixed per process: %d VP, %d/%d streams, rings of %d/%d tasks, submitter code %d "
                "(distance, keep_highest_priority flag, next_task, priorities symbolic)" % (nvp, nc0, nc1, k0, k1, sub))
    if full:
        SH = [(2, nc0, nc1, k0, k1) for (nc0, nc1) in ((2, 2), (2, 1)) for (k0, k1) in ((3, 2), (1, 0), (0, 2), (2, 1))] + \
             [(1, 2, 1, 3, 0), (1, 1, 1, 2, 0)]
        VP = [s + (sub,) for s in SH for sub in valid_subs(*s[:3])]
    else:
        VP = [(2, 2, 1, 2, 1, 3), (2, 2, 2, 3, 1, 5), (2, 2, 2, 1, 3, 2), (2, 1, 2, 3, 0, 0), (2, 2, 2, 1, 2, 1),
              (2, 1, 2, 0, 2, 4), (1, 2, 1, 3, 0, 3), (1, 1, 1, 1, 0, 2)]
    for s in VP:
        J.append(Job("glue.schedule_vp.v%d.c%d%d.k%d%d.sub%d" % s, "h_glue.c", entry="h_schedule_vp", defines=gd(*s), unwind=8,
                     bounded=gb(*s), functions=["__parsec_schedule_vp", "__parsec_schedule"], min_obligations=8, timeout=300))
    for k in ((1, 2, 3) if full else (1, 3)):
        J.append(Job("glue.schedule.k%d" % k, "h_glue.c", entry="h_schedule", defines=gd(2, 2, 1, k, 0), unwind=8,
                     bounded="ring of %d tasks" % k, functions=["__parsec_schedule"], min_obligations=4, timeout=300))
        J.append(Job("glue.flush_private.k%d" % k, "h_glue.c", entry="h_flush_private", defines=gd(2, 2, 1, k, 0), unwind=8,
                     bounded="next_task ring of %d tasks" % k, functions=["__parsec_schedule_flush_private"], min_obligations=4, timeout=300))
    RS = [(nvp, nc0, nc1) for nvp in (1, 2) for nc0 in (1, 2) for nc1 in ((1, 2) if nvp == 2 else (1,))]
    if not full:
        RS = [(2, 2, 2), (2, 1, 2), (1, 2, 1)]
    for nvp, nc0, nc1 in RS:
        for sub in valid_subs(nvp, nc0, nc1)[2:] if full else valid_subs(nvp, nc0, nc1)[-1:]:
            J.append(Job("glue.reschedule.v%d.c%d%d.sub%d" % (nvp, nc0, nc1, sub), "h_glue.c", entry="h_reschedule",
                         defines=gd(nvp, nc0, nc1, 1, 0, sub), unwind=8, unwindset={"__parsec_reschedule.0": nvp + 1},
                         bounded="context of %d VP with %d/%d streams, caller code %d" % (nvp, nc0, nc1, sub),
                         functions=["__parsec_reschedule"], min_obligations=5, timeout=300))
    # composition: head retained by __parsec_schedule_vp, later flushed (rings >= 2: was a defect, repaired by /repo 309bf88)
    for k in (1, 2, 3):
        J.append(Job("glue.vp_then_flush.k%d" % k, "h_glue.c", entry="h_vp_then_flush", defines=gd(2, 2, 1, k, 0), unwind=8,
                     bounded="ring of %d task(s)" % k, functions=["__parsec_schedule_vp", "__parsec_schedule_flush_private"],
                     min_obligations=3, timeout=300))
    # ---------------- part 2: module histories
    for m in MODS:
        for i, sc in enumerate(scripts(tier)):
            for ns in ((1, 2) if full and i < 6 else (2,)):
                tag = sc.replace("S(", "s").replace(")", "").replace(" ", "").lower()
                J.append(Job("%s.history.ns%d.%s" % (m, ns, tag), "h_mod.c", entry="h_history",
                             defines={"MOD_" + m: None, "NS": ns, "SCRIPT": sc}, unwind=8, unwindset=US, paths="lifo",
                             bounded="history shape '%s' from the freshly initialised module, %d stream(s) (stream of every operation, "
                                     "distances 0..1e6, priorities, rand() answers symbolic)" % (sc, ns),
                             functions=["sched_%s_schedule" % m, "sched_%s_select" % m], min_obligations=8, timeout=600))
    # ---------------- part 3: llp helpers (lifo_chain_sorted / lifo_merge_ring), sequential and rely/guarantee
    def lus(maxfail, maxrepeat, n):
        return {"lifo_chain_sorted.1": maxfail + 2, "lifo_chain_sorted.3": maxfail + 2, "lifo_chain_sorted.4": maxrepeat + 1,
                "lifo_chain_sorted.2": n + 1, "lifo_merge_ring.0": n + 1, "lifo_merge_ring.1": n + 1}

    def lb(n, k, extra=""):
        return "pool of %d items, ring of %d (priorities, initial stack, distance 0..%d symbolic)%s" % (n, k, n, extra)
    SEQ = [(3, 1, 0), (3, 1, 1), (3, 2, 0)] + ([(3, 2, 1), (4, 1, 0), (4, 2, 0), (4, 3, 1)] if full else [])
    for n, k, sw in SEQ:
        J.append(Job("llp.seq.chain_sorted.n%d.k%d.sw%d" % (n, k, sw), "h_llp.c", entry="h_seq_chain_sorted",
                     defines={"NPOOL": n, "K": k, "SW": sw}, unwind=n + 2, unwindset=lus(0, 0, n), bounded=lb(n, k),
                     functions=["lifo_chain_sorted", "lifo_merge_ring"], min_obligations=6, timeout=600))
    for n, k in [(3, 1), (3, 2)] + ([(4, 2), (4, 3)] if full else []):
        J.append(Job("llp.merge_ring.n%d.k%d" % (n, k), "h_llp.c", entry="h_merge_ring", defines={"NPOOL": n, "K": k},
                     unwind=n + 2, unwindset=lus(0, 0, n), bounded=lb(n, k), functions=["lifo_merge_ring"],
                     min_obligations=4, timeout=600))
    RG = [(3, 1, 0, 1, 0), (3, 1, 1, 1, 0)] + ([(3, 2, 0, 1, 0), (3, 2, 1, 1, 0), (3, 1, 0, 2, 0), (3, 1, 0, 1, 1)] if full else [])
    for (n, k, sw, mf, mr), ds in [(r, None) for r in RG]:     # ds = 0 / 1: optional case split of the distance domain (DISTSEL)
        J.append(Job("llp.rg.chain_sorted.n%d.k%d.sw%d.f%d.r%d.%s" % (n, k, sw, mf, mr, "dall" if ds is None else "d0" if ds == 0 else "dpos"), "h_llp.c",
                     entry="h_rg_chain_sorted",
                     defines=dict({"NPOOL": n, "K": k, "SW": sw, "MAXFAIL": mf, "MAXREPEAT": mr}, **({} if ds is None else {"DISTSEL": ds})),
                     unwind=n + 2,
                     unwindset=lus(mf, mr, n),
                     bounded=lb(n, k, "; distance %s in this process; at most %d environment-induced CAS failure(s) and %d 'goto repeat' round(s); environment acts "
                                      "before and after each fence / CAS" % ("0..%d" % n if ds is None else "== 0" if ds == 0 else ">= 1", mf, mr)),
                     functions=["lifo_chain_sorted", "lifo_merge_ring"], min_obligations=12, timeout=1800 if full else 600, mem_gb=8,
                     object_bits=10 if mr else None))     # the second round doubles the number of addressed (local) objects
    # ---------------- part 4: hierarchical bounded buffer (hbbuffer.c), sequential contracts + one interference job each
    def hus(b, k, env):
        return {"parsec_hbbuffer_push_all_by_priority.0": b + 1, "parsec_hbbuffer_push_all_by_priority.3": k + 1 + 2 * env,
                "parsec_hbbuffer_push_all.1": b + 1, "parsec_hbbuffer_push_all.2": k + 1,
                "parsec_hbbuffer_pop_best.0": b + 1, "parsec_hbbuffer_pop_best.1": 2}

    def hb(b, k, extra=""):
        return "buffer of %d slots, pushed ring of %d tasks (occupancy, all priorities, distance symbolic)%s" % (b, k, extra)
    HP = [(2, 1), (2, 2), (2, 3), (3, 2)] + ([(4, 3), (1, 2), (3, 1), (3, 3), (4, 1), (4, 2)] if full else [])
    for b, k in HP:
        J.append(Job("hbb.push_prio.b%d.k%d" % (b, k), "h_hbb.c", entry="h_push_prio", defines={"BSIZE": b, "K": k}, unwind=b + k + 3,
                     unwindset=hus(b, k, 0), object_bits=10, bounded=hb(b, k), functions=["parsec_hbbuffer_push_all_by_priority"],
                     min_obligations=12, timeout=600))
    for b, k in [(2, 2), (3, 3)] + ([(1, 2), (2, 3), (4, 2), (4, 3)] if full else []):
        J.append(Job("hbb.push_all.b%d.k%d" % (b, k), "h_hbb.c", entry="h_push_all", defines={"BSIZE": b, "K": k}, unwind=b + k + 3,
                     unwindset=hus(b, k, 0), object_bits=10, bounded=hb(b, k), functions=["parsec_hbbuffer_push_all"],
                     min_obligations=12, timeout=600))
    for b in (3,) + ((1, 2, 4) if full else ()):
        J.append(Job("hbb.pop_best.b%d" % b, "h_hbb.c", entry="h_pop_best", defines={"BSIZE": b, "K": 1}, unwind=b + 4,
                     unwindset=hus(b, 1, 0), object_bits=10, bounded="buffer of %d slots (occupancy, priorities symbolic)" % b,
                     functions=["parsec_hbbuffer_pop_best"], min_obligations=8, timeout=600))
    for b, k in [(2, 2)] + ([(3, 2), (2, 3)] if full else []):
        for e, fn in (("rg_push_prio", "parsec_hbbuffer_push_all_by_priority"), ("rg_push_all", "parsec_hbbuffer_push_all")):
            J.append(Job("hbb.%s.b%d.k%d" % (e, b, k), "h_hbb.c", entry="h_" + e, defines={"BSIZE": b, "K": k, "MAXENV": 1},
                         unwind=b + k + 3, unwindset=hus(b, k, 1), object_bits=10,
                         bounded=hb(b, k, "; at most 1 action of another thread (steals an empty slot / pops a resident) before or "
                                          "after one of my compare-and-swaps"),
                         functions=[fn], min_obligations=12, timeout=600, canaries=2))
    return J


META = dict(
    level="other",
    functions=GLUE + MODFN,
    explanation="Part 1 (h_glue.c): pre/post contracts (route harness) on the real __parsec_schedule, __parsec_schedule_vp, "
                "__parsec_schedule_flush_private and __parsec_reschedule of parsec/scheduling.c (file included verbatim) against a recording "
                "scheduler module that checks every ring it is handed for well-formedness and counts, per task, how often it was handed over: "
                "every task of every non-NULL task_rings[vp] is handed to the module exactly once, to a stream of that VP, or is retained as "
                "next_task (only the head of the submitter's own-VP ring, only when next_task was NULL, distance 0, keep_highest_priority on, "
                "computing stream); a non-NULL next_task is never overwritten; task_rings[] cleared. Part 2 (h_mod.c): the real module files of "
                "ap, ip, rnd, spq, gd included verbatim; the multiset of tasks held by the module is ghost state (never handed / held / returned "
                "per pool task); along a history from the freshly initialised module (scripts of schedule(ring of k) and select operations, the "
                "stream of each operation, distances, priorities symbolic) every select answers NULL iff the ghost multiset is empty, otherwise a "
                "held task (st == 1: exactly once), schedule answers PARSEC_SUCCESS and writes no priority / task_class (rnd: priority excluded, "
                "it is overwritten by design), and every history ends with the module empty and every task returned exactly once. "
                "Part 3 (h_llp.c): the llp helpers lifo_chain_sorted (128-bit CAS variant) and lifo_merge_ring of the real sched_llp_module.c, "
                "sequential contracts and a rely/guarantee check in the style of C30: abstract stack ghost, the environment replaces the shared "
                "LIFO by any Rely-conforming state before and after each fence / CAS (VERIF_RG_POST_STEP), guarantees asserted at my successful "
                "CAS (fast-path push: ring in order in front of the current stack; detach: whole stack becomes mine and my ring is again a "
                "well-formed ring of exactly my tasks; re-attach: the installed chain is acyclic and holds every ring task and every detached "
                "task exactly once), nothing left private on return. "
                "Part 4 (h_hbb.c): the hierarchical bounded buffer of the real parsec/hbbuffer.c (parsec_hbbuffer_push_all_by_priority = pbq, "
                "parsec_hbbuffer_push_all = lfq/lhq/ltq, parsec_hbbuffer_pop_best): representation invariant 'every resident is a singleton "
                "ring' as pre- and postcondition, a recording parent store that walks the ring it is handed; every task of (residents before + "
                "pushed ring) is afterwards in exactly one slot or was handed to the parent exactly once; with a ring in non-increasing "
                "priority order no resident has a lower priority than a task handed up; plus one interference job per push function "
                "(another thread steals an empty slot or pops a resident before/after one of my compare-and-swaps).",
    trusted_base=["recording stub for parsec_current_scheduler->module.schedule; parsec_pins_instrument, parsec_output no-ops; "
                  "parsec_my_execution_stream answers the caller's stream (stream 0 of VP 0 for a NULL submitter)",
                  "parsec_barrier_wait stubbed as a no-op: streams run flow_<M>_init one after the other, stream 0 first; rand() stubbed as a non-negative nondeterministic value",
                  "history jobs start from the state flow_<M>_init leaves behind WRITTEN BY HAND on typed static objects (one empty unlocked "
                  "parsec_list_t / dequeue / parsec_list_with_size_t shared by the streams of the VP); that shape (empty, unlocked, shared) is "
                  "discharged for ap, ip, spq by C09 (*.flow_init jobs) and is UNCHECKED for rnd and gd (same code pattern); running the real "
                  "flow_<M>_init through CBMC's model of the object system inside these jobs did not finish (harness code kept under -DREAL_INIT)",
                  "sched_<M>_remove is compiled under another name and the module descriptor's remove slot points to an empty function "
                  "(preprocessor trick in h_mod.c; CBMC otherwise resolves constructor calls of the object system to it); it is not under contract",
                  "cbmc --paths lifo (path-wise symbolic execution) for the history jobs",
                  "composition of per-operation contracts into arbitrary histories is by enumeration of history shapes, not by induction",
                  "llp: rely/guarantee soundness theorem; the Rely of h_llp.c (counter unchanged => stack unchanged; my items untouched; with "
                  "single_writer the others only pop) is what lifo_chain_sorted / parsec_lifo_pop guarantee (counter bump on every update, "
                  "checked for lifo_chain_sorted here, for parsec_lifo_pop in C30) plus the caller's single_writer promise (NOT checked: "
                  "__parsec_reschedule may schedule on another stream's LIFO with th_id != 0); lifo_chain_sorted is run on small items "
                  "{list_item, prio} through its own offset parameter instead of parsec_task_t",
                  "hbbuffer: the trailing slot array items[1] is re-declared with its run-time length while hbbuffer.h is read (member "
                  "offsets unchanged, static assert) and calloc serves the one buffer from a typed static object; the compare-and-swap on a "
                  "slot goes through an address case split (identity); induction 'INV holds along every history' is a paper argument over the "
                  "per-call contracts; the interference jobs allow ONE action of another thread"],
    assumptions=["NO concurrency: atomics and locks run without interference (the property's concurrent schedule/select clause is not decided)",
                 "every module's schedule() answers 0 (obligation sched_<M>_schedule.post.returns_success for the covered modules; by "
                 "inspection for the others) - used as precondition of __parsec_schedule_vp",
                 "rings handed to schedule() are well-formed rings of tasks not currently held; distances 0..1e6",
                 "build configuration of /repo/_build: PARSEC_PAPI_SDE off, NDEBUG, PARSEC_DEBUG_PARANOID off (popped items keep stale links: "
                 "'returned task is a singleton' is NOT a postcondition of select in this build and is not claimed)"],
)

MANIFEST = dict(
    category="other",
    text="Contracts on the real dispatch glue of scheduling.c (__parsec_schedule_vp, __parsec_schedule, __parsec_reschedule, "
         "__parsec_schedule_flush_private) and on schedule/select of the list-based scheduler modules ap, ip, rnd, spq, gd, discharged by CBMC with "
         "ghost bookkeeping of the multiset of held tasks: no task is lost, duplicated or invented, a non-empty module never answers NULL, "
         "for symbolic priorities, distances, streams and flags. Level 'other': bounded - VP/stream/ring shapes (<= 2 VP x 2 streams, rings <= 3) "
         "and module histories (<= 4 tasks, <= 3 schedule calls, enumerated scripts) are fixed per cbmc process; 5 of the 11 modules covered "
         "end to end, plus the insertion helpers of llp (lifo_chain_sorted / lifo_merge_ring) sequentially and under rely/guarantee interference "
         "(pool of 3-4 items, ring 1-2, <= 1-2 induced CAS failures, <= 1 repeat round), and the hbbuffer push / pop functions used by "
         "lfq, lhq, ltq, pbq (buffers of 1-4 slots, rings 1-3, one interfering action).",
    note="NOT COVERED as modules: ll, lfq, lhq, ltq, pbq (for the last four only their shared buffer parsec_hbbuffer_push_all / _push_all_by_priority / _pop_best is covered, per call, buffers <= 4 slots, rings <= 3; not their flow_init, the system queue, the maxheap of ltq, nor module-level histories); of llp only the helpers lifo_chain_sorted / lifo_merge_ring are covered (not flow_llp_init, sched_llp_schedule / _select as a module, which wrap them and parsec_lifo_pop = C30). ll was tried (real lifo.h, 128-bit counted-pointer CAS): path-wise > 4 min for a "
         "4-operation history, monolithic > 200 s and 12-23 GB even for 'S(1) X X' - dropped; the hbbuffer / maxheap modules were not "
         "attempted (their helpers are properties C35 / C30; their multi-barrier flow_init has no valid sequential order for 2 streams with a no-op barrier); any concurrent interleaving; more than 2 streams, rings > 3, more than 4 tasks; the real flow_<M>_init is NOT run: the "
         "history jobs start from a hand-written copy of the state it leaves (see trusted base); cross-VP isolation inside a module (one VP per harness). "
         "The composition __parsec_schedule_vp (head retained) ; __parsec_schedule_flush_private was a genuine latent defect for rings >= 2 "
         "(stale links of the retained head handed to the module as a ring); repaired in /repo by 309bf88 and now checked by the passing jobs "
         "glue.vp_then_flush.k2/k3 and glue.flush_private.k* (selftest 08 reverts the repair and is detected).",
    technique="function contracts + ghost multiset on the real scheduling.c and scheduler module sources, discharged by CBMC (SAT; path-wise "
              "symbolic execution for the module histories), shapes enumerated one cbmc process per shape",
    design_ref="DESIGN.md section 5, C08")
