/* C08 (part 3) - llp: the sorted insertion into the lock-free LIFO of parsec/mca/sched/llp/sched_llp_module.c
 * (lifo_chain_sorted, 128-bit-CAS variant as configured in /repo/_build, and its helper lifo_merge_ring) neither loses
 * nor duplicates a task, also when other threads act on the same LIFO between its atomic steps.
 * The REAL module file is included verbatim; every parsec_atomic_* / fence of the real code goes through the
 * rely/guarantee wrappers of verif_rg.h (style of spec/C30/h_lifo.c).  lifo_chain_sorted takes the offset of the
 * priority field as a parameter: the harness calls it on small items { parsec_list_item_t super; int prio; } (separate
 * static objects, symbolic priorities) instead of 984-byte parsec_task_t objects; the code executed is the same.
 *
 * Ghost state
 *   S = g_stack[0..g_len)  the abstract stack held by the LIFO, top first (indices into the pool)
 *   mine[i]                item i is privately owned by me: a member of the ring I still have to insert (g_ring[0..g_ring_k), in
 *                          ring order) or of the chain I detached from the LIFO (g_det)
 *   every other item is owned by "the others" (free: its links are arbitrary and may change at any time)
 *   Inv:  L.lifo_head.data.item == &item[S[0]] (NULL if S empty), item[S[i]].list_next == &item[S[i+1]] (NULL for the last),
 *         the S[i] pairwise distinct (=> the chain is acyclic and NULL-terminated), none of them mine.
 * Rely (environment step before AND after each of my fences / CAS: VERIF_RG_POST_STEP)
 *   R1 the counter never decreases; counter unchanged ==> S and the links of its items unchanged (every writer of an llp LIFO
 *      goes through parsec_update_counted_pointer or the single-writer store, both bump the counter: guaranteed below for me)
 *   R3 my items are never put into S and their fields are not touched
 *   R4 the new S is any admissible stack of items that are not mine (the others may pop, steal, detach-merge-reattach ...);
 *      with single_writer (the caller's promise "no other thread adds elements"): the new S is a SUFFIX of the old one (pops only)
 * Guarantee (asserted in verif_own_step at my successful CAS = linearisation points, and at every hook for my plain writes)
 *   G0 my plain writes between atomic steps leave Inv intact; a failed CAS changes nothing
 *   G1 fast path (CAS head -> ring): the new chain is my ring in ring order followed by the S of that instant; S' = ring ++ S
 *   G2 detach (CAS head -> NULL): the whole S of that instant becomes mine; AND my ring is (again, if an earlier fast-path CAS
 *      failed) a well-formed ring of exactly my ring tasks: this is the ring lifo_merge_ring is about to walk and chop
 *   G3 re-attach (CAS head -> merged list): the chain installed is acyclic, NULL-terminated and holds every ring task and every
 *      detached task exactly once and nothing else; the S of that instant (added by the others meanwhile) becomes my next ring
 *   G4 every successful CAS increments the counter
 *   on return: nothing is left private (mine == {}); single_writer: the chain stored by the final plain write holds exactly
 *      ring + detached, once each.
 * With G1-G3 every task is, at each of my linearisation points, in exactly one of {S, mine, others}: multiset conservation.
 * Bounds (Job.bounded): pool of NPOOL items, ring of K items, at most MAXFAIL environment-induced CAS failures, at most
 * MAXREPEAT "goto repeat" rounds (the others added items between my detach and my re-attach).
 */
#include "verif.h"
#ifndef VERIF_RG_POST_STEP
#define VERIF_RG_POST_STEP
#endif
#include "verif_rg.h"
#include <stddef.h>
#include "parsec/parsec_config.h"
#include "parsec/parsec_internal.h"
#include "parsec/class/barrier.h"
#include "parsec/mca/sched/llp/sched_llp_module.c"

#if !defined(PARSEC_ATOMIC_HAS_ATOMIC_CAS_INT128)
#error "written for the 128-bit CAS variant configured in /repo/_build"
#endif

#ifndef NPOOL
#define NPOOL 3
#endif
#define N NPOOL
#ifndef K
#define K 1                   /* ring length */
#endif
#ifndef SW
#define SW 0                  /* single_writer argument */
#endif
#ifndef MAXFAIL
#define MAXFAIL 1
#endif
#ifndef MAXREPEAT
#define MAXREPEAT 0
#endif
#define ENVK (4 * MAXFAIL + 6 * (MAXREPEAT + 1) + 1)   /* hooks: <= 4 per failed attempt, <= 6 per round, + the initial step */
#define CMAX ((int64_t)1 << 62)

typedef struct { parsec_list_item_t super; int prio; } c08_item_t;
#define PRIO_OFF offsetof(c08_item_t, prio)

struct vin {
    int32_t  prio[N];
    uint8_t  len0; uint8_t s0[N]; uint8_t fn0[N]; uint8_t pv0[N]; int64_t c0;
    int32_t  distance;
    uint8_t  sorted;                /* h_merge only */
    uint8_t  env_len[ENVK]; uint8_t env_s[ENVK][N]; uint8_t env_fn[ENVK][N]; uint8_t env_pv[ENVK][N]; int64_t env_dc[ENVK];
} vin;
#include "verif_vin.h"

static parsec_lifo_t L;
#if N > 4
#error "pool of at most 4 items"
#endif
static c08_item_t it0, it1, it2, it3;
static c08_item_t *const PI[4] = { &it0, &it1, &it2, &it3 };
#define ITEM(i)  (&PI[(i) % N]->super)
#define NEXT(i)  ((parsec_list_item_t *)ITEM(i)->list_next)
#define PREV(i)  ((parsec_list_item_t *)ITEM(i)->list_prev)
#define COUNTER  (L.lifo_head.data.guard.counter)
#define HEAD     (L.lifo_head.data.item)

static parsec_list_item_t *ptr_of(uint8_t k) { return k < N ? ITEM(k) : NULL; }
static int idx_of(const volatile void *p)
{
    for (int i = 0; i < N; i++) if (p == (const volatile void *)ITEM(i)) return i;
    return -1;
}

/* ---- ghost ---- */
static uint8_t g_stack[N]; static int g_len;
static uint8_t g_mine[N];
static uint8_t g_ring[N];  static int g_ring_k;
static uint8_t g_det[N];   static int g_det_k;
static int g_env_on, g_env_k, g_post;
static int g_phase;            /* 0: ring pending (fast path / detach loop), 1: detached, merge + re-attach, 2: done */
static int g_lin, g_fail, g_rounds;
static parsec_list_item_t *g_pre_item; static int64_t g_pre_counter;

/* All predicates / state writers below go over the pool items by CONCRETE index (the lvalue ITEM(j) is a fixed object) and
 * look the item up in the symbolic sequences, instead of dereferencing a symbolic pool index: much cheaper for CBMC. */
static int pos_in(const uint8_t *s, int len, int j)          /* position of item j in s[0..len), -1 if absent */
{
    int p = -1;
    for (int i = N - 1; i >= 0; i--) if (i < len && s[i] == j) p = i;
    return p;
}
static int count_in(const uint8_t *s, int len, int j)
{
    int c = 0;
    for (int i = 0; i < N; i++) if (i < len && s[i] == j) c++;
    return c;
}
static int matches(const uint8_t *s, int len)
{
    if (len < 0 || len > N) return 0;
    int ok = 1;
    ok &= (HEAD == (len ? ptr_of(s[0]) : NULL));
    for (int i = 0; i < N; i++) if (i < len) ok &= (s[i] < N);
    for (int j = 0; j < N; j++) {
        int c = count_in(s, len, j), p = pos_in(s, len, j);
        ok &= (c <= 1);                                            /* pairwise distinct */
        if (p >= 0) ok &= (NEXT(j) == ((p + 1 < len) ? ptr_of(s[(p + 1) % N]) : NULL));
    }
    return ok;
}
static int inv_ok(void)
{
    int ok = matches(g_stack, g_len);
    for (int j = 0; j < N; j++) if (g_mine[j]) ok &= (pos_in(g_stack, g_len, j) < 0);
    return ok;
}
/* my ring is a well-formed ring of exactly my ring tasks: following list_next from the head visits g_ring[0..k) in order and
 * closes on the head, and head->list_prev is the tail (all the code relies on: ring->list_prev and chopping from the head) */
static int ring_wf(void)
{
    int ok = g_ring_k >= 1 && g_ring_k <= N;
    for (int j = 0; j < N; j++) {
        int p = pos_in(g_ring, g_ring_k, j);
        if (p >= 0) ok &= (NEXT(j) == ptr_of(g_ring[(p + 1 < g_ring_k) ? (p + 1) % N : 0]));
        if (p == 0) ok &= (PREV(j) == ptr_of(g_ring[(g_ring_k - 1 + N) % N]));
    }
    return ok;
}
/* walk the concrete chain from p: length, -1 if it leaves the pool, -2 if longer than N (cycle) */
static int walk_chain(parsec_list_item_t *p, uint8_t *out)
{
    int n = 0;
    for (int k = 0; k <= N; k++) {
        if (p == NULL) return n;
        int i = -1; parsec_list_item_t *nx = NULL;
        for (int j = 0; j < N; j++) if (p == ITEM(j)) { i = j; nx = NEXT(j); }
        if (i < 0) return -1;
        if (n == N) return -2;
        out[n++] = (uint8_t)i;
        p = nx;
    }
    return -2;
}
/* chain c[0..n) holds every ring task and every detached task exactly once and nothing else */
static int is_ring_plus_detached(const uint8_t *c, int n)
{
    if (n != g_ring_k + g_det_k) return 0;
    int ok = 1;
    for (int j = 0; j < N; j++)
        ok &= (count_in(c, n, j) == count_in(g_ring, g_ring_k, j) + count_in(g_det, g_det_k, j));
    return ok;
}

static void install(int len, const uint8_t *s, const uint8_t *fn, const uint8_t *pv, int initial)
{
    g_len = len;
    for (int i = 0; i < N; i++) g_stack[i] = s[i];
    HEAD = len ? ptr_of(s[0]) : NULL;
    for (int j = 0; j < N; j++) {
        int p = pos_in(s, len, j);
        if (p >= 0) ITEM(j)->list_next = (p + 1 < len) ? ptr_of(s[(p + 1) % N]) : NULL;
        else if (initial || !g_mine[j]) ITEM(j)->list_next = ptr_of(fn[j]);
        if (initial || !g_mine[j]) ITEM(j)->list_prev = ptr_of(pv[j]);      /* list_prev of LIFO / free items is junk */
    }
}
static void assume_admissible(int len, const uint8_t *s)
{
    V_ASSUME(len >= 0 && len <= N);
    for (int i = 0; i < N; i++) V_ASSUME(s[i] < N);
    for (int j = 0; j < N; j++) {
        int c = count_in(s, len, j);
        V_ASSUME(c <= 1);
        if (g_mine[j]) V_ASSUME(c == 0);
    }
}

static void env_act(void)
{
    if (!g_env_on) return;
    V_ASSERT(g_env_k < ENVK, "C08.llp_harness.inv.environment_step_budget_not_exceeded");
    if (g_env_k >= ENVK) return;
    int k = g_env_k++;
    int nl = vin.env_len[k];
    int64_t dc = vin.env_dc[k];
    /* local 1-D copies (element-wise, concrete column index): the predicates below index them symbolically */
    uint8_t es[N], efn[N], epv[N];
    for (int i = 0; i < N; i++) { es[i] = vin.env_s[k][i]; efn[i] = vin.env_fn[k][i]; epv[i] = vin.env_pv[k][i]; }
    assume_admissible(nl, es);                                    /* R3, R4 */
    V_ASSUME(dc >= 0 && dc < CMAX - COUNTER);                     /* R1 */
    if (dc == 0) {                                                /* R1: counter unchanged => S unchanged */
        V_ASSUME(nl == g_len);
        for (int i = 0; i < N; i++) if (i < g_len) V_ASSUME(es[i] == g_stack[i]);
    }
#if SW
    V_ASSUME(nl <= g_len);                                        /* R4 single writer: the others only pop */
    for (int i = 0; i < N; i++) if (i < nl) V_ASSUME(es[i] == g_stack[(g_len - nl + i) % N]);
#endif
    COUNTER += dc;
    install(nl, es, efn, epv, 0);
}

void verif_env_step(int op, volatile void *loc)
{
    (void)op; (void)loc;
    if (g_phase != 2)
        V_ASSERT(inv_ok(), "C08.lifo_chain_sorted.guar.plain_writes_leave_the_shared_chain_intact");
    env_act();
    if (g_post) { g_post = 0; return; }
    g_pre_item = HEAD; g_pre_counter = COUNTER;
}

void verif_own_step(int op, volatile void *loc, int success)
{
    g_post = 1;
    if (op != V_OP_CAS) return;
    if (loc != (volatile void *)&L.lifo_head && loc != (volatile void *)&L.lifo_head.data.item) return;
    if (!success) {
        g_fail++;
        V_ASSERT(HEAD == g_pre_item && COUNTER == g_pre_counter, "C08.lifo_chain_sorted.guar.failed_cas_changes_nothing");
        V_ASSUME(g_fail <= MAXFAIL);                              /* bound of the retry loops (Job.bounded) */
        return;
    }
    g_lin++;
    V_ASSERT(COUNTER == g_pre_counter + 1, "C08.lifo_chain_sorted.guar.successful_cas_increments_the_counter");
    V_ASSERT(g_pre_item == (g_len ? ptr_of(g_stack[0]) : NULL), "C08.lifo_chain_sorted.guar.cas_succeeds_only_on_the_current_top");
    if (g_phase == 0 && HEAD != NULL) {
        /* G1 fast path */
        V_ASSERT(HEAD == ptr_of(g_ring[0]), "C08.lifo_chain_sorted.guar.fast_path_new_head_is_ring_head");
        int ok = 1;
        for (int j = 0; j < N; j++) {
            int p = pos_in(g_ring, g_ring_k, j);
            if (p >= 0) ok &= (NEXT(j) == ((p + 1 < g_ring_k) ? ptr_of(g_ring[(p + 1) % N]) : g_pre_item));
        }
        V_ASSERT(ok, "C08.lifo_chain_sorted.guar.fast_path_ring_order_kept_and_tail_links_to_the_old_top");
        V_ASSERT(g_len + g_ring_k <= N, "C08.lifo_chain_sorted.guar.pushes_only_tasks_it_owns");
        if (g_len + g_ring_k <= N) {
            for (int i = N - 1; i >= 0; i--) if (i >= g_ring_k) g_stack[i] = g_stack[i - g_ring_k];
            for (int i = 0; i < N; i++) if (i < g_ring_k) g_stack[i] = g_ring[i];
            for (int j = 0; j < N; j++) if (pos_in(g_ring, g_ring_k, j) >= 0) g_mine[j] = 0;
            g_len += g_ring_k;
        }
        g_ring_k = 0; g_phase = 2;
        V_ASSERT(inv_ok(), "C08.lifo_chain_sorted.inv.fast_path_leaves_a_well_formed_acyclic_chain_of_ring_plus_old_stack");
    } else if (g_phase == 0) {
        /* G2 detach: the whole stack of this instant becomes mine */
        V_ASSERT(HEAD == NULL, "C08.lifo_chain_sorted.guar.detach_empties_the_lifo");
        V_ASSERT(ring_wf(), "C08.lifo_chain_sorted.guar.after_failed_cas_my_ring_is_again_a_well_formed_ring_of_exactly_my_tasks");
        g_det_k = g_len;
        for (int i = 0; i < N; i++) g_det[i] = g_stack[i];
        for (int j = 0; j < N; j++) if (pos_in(g_stack, g_len, j) >= 0) g_mine[j] = 1;
        g_len = 0; g_phase = 1;
    } else if (g_phase == 1) {
        /* G3 re-attach */
        uint8_t c[N]; for (int i = 0; i < N; i++) c[i] = 0;
        int n = walk_chain(HEAD, c);
        V_ASSERT(n >= 0, "C08.lifo_chain_sorted.guar.reattached_chain_is_acyclic_and_null_terminated");
        V_ASSERT(n >= 0 && is_ring_plus_detached(c, n),
                 "C08.lifo_chain_sorted.guar.reattached_chain_holds_every_ring_task_and_every_detached_task_exactly_once");
        /* what the others added meanwhile (the S of this instant) is popped out by my CAS: it is my next ring */
        int nr = g_len; uint8_t nring[N];
        for (int i = 0; i < N; i++) nring[i] = g_stack[i];
        for (int j = 0; j < N; j++) g_mine[j] = 0;
        g_len = n >= 0 ? n : 0;
        for (int i = 0; i < N; i++) g_stack[i] = c[i];
        g_det_k = 0; g_ring_k = nr;
        for (int i = 0; i < N; i++) g_ring[i] = nring[i];
        for (int j = 0; j < N; j++) if (pos_in(nring, nr, j) >= 0) g_mine[j] = 1;
        if (nr == 0) g_phase = 2;
        else { g_phase = 0; g_rounds++; V_ASSUME(g_rounds <= MAXREPEAT); }      /* bound on "goto repeat" (Job.bounded) */
        V_ASSERT(inv_ok(), "C08.lifo_chain_sorted.inv.reattach_leaves_a_well_formed_acyclic_chain");
    } else {
        V_ASSERT(0, "C08.lifo_chain_sorted.guar.no_cas_on_the_head_after_completion");
    }
}

/* ---- pre-state: ring = items 0..K-1 (WLOG: priorities are symbolic), S0 any admissible stack of the other items ---- */
static parsec_list_item_t *setup(int env_on)
{
    vin_load();
    g_env_on = env_on; g_env_k = 0; g_post = 0; g_phase = 0; g_lin = 0; g_fail = 0; g_rounds = 0; g_det_k = 0;
    for (int i = 0; i < N; i++) { PI[i]->prio = vin.prio[i]; g_mine[i] = i < K; g_ring[i] = (uint8_t)i; }
    g_ring_k = K;
    V_ASSUME(vin.c0 >= 0 && vin.c0 < CMAX - 8);
    L.alignment = PARSEC_LIFO_ALIGNMENT_DEFAULT;
    COUNTER = vin.c0;
    assume_admissible(vin.len0, vin.s0);
    install(vin.len0, vin.s0, vin.fn0, vin.pv0, 1);
    /* the ring, built with the REAL ring primitives */
    parsec_list_item_t *ring = parsec_list_item_singleton(ITEM(0));
    for (int i = 1; i < K; i++) parsec_list_item_ring_push(ring, ITEM(i));
    V_ASSUME(vin.distance >= 0 && vin.distance <= N);
#ifdef DISTSEL          /* case split of the distance domain over two cbmc processes: 0 (fast path possible) / 1..N (always detach) */
    V_ASSUME(DISTSEL ? vin.distance >= 1 : vin.distance == 0);
#endif
    return ring;
}

static void post_common(void)
{
    for (int i = 0; i < N; i++)
        V_ASSERT(PI[i]->prio == vin.prio[i], "C08.lifo_chain_sorted.post.frame_priorities_not_written");
}

/* ------------------------------------------------------------------ sequential contract (quiet environment) */
void h_seq_chain_sorted(void)
{
    parsec_list_item_t *ring = setup(0);
    lifo_chain_sorted(&L, ring, vin.distance, PRIO_OFF, SW);
    uint8_t c[N]; for (int i = 0; i < N; i++) c[i] = 0;
    int n = walk_chain(HEAD, c);
    V_ASSERT(n == vin.len0 + K, "C08.lifo_chain_sorted.post.chain_acyclic_null_terminated_with_old_plus_ring_length");
    for (int i = 0; i < N; i++) {
        int want = (i < K), got = 0;
        for (int j = 0; j < N; j++) { if (j < vin.len0 && vin.s0[j] == i) want++; if (j < n && c[j] == i) got++; }
        V_ASSERT(got == want, "C08.lifo_chain_sorted.post.every_ring_task_and_every_task_held_before_is_held_exactly_once");
    }
    V_ASSERT(g_fail == 0, "C08.lifo_chain_sorted.post.no_cas_failure_without_interference");
    V_ASSERT(COUNTER > vin.c0, "C08.lifo_chain_sorted.post.counter_incremented");
    post_common();
    V_CANARY("seq_chain_sorted");
}

/* ------------------------------------------------------------------ rely/guarantee */
void h_rg_chain_sorted(void)
{
    parsec_list_item_t *ring = setup(1);
    env_act();                                   /* the others may act before my first read */
    lifo_chain_sorted(&L, ring, vin.distance, PRIO_OFF, SW);
#if SW
    /* single writer: the merged list is published by a plain store (after counter++ ; wmb), no CAS: check it here */
    if (g_phase == 1) {
        uint8_t c[N]; for (int i = 0; i < N; i++) c[i] = 0;
        int n = walk_chain(HEAD, c);
        V_ASSERT(n >= 0, "C08.lifo_chain_sorted.post.single_writer_chain_is_acyclic_and_null_terminated");
        V_ASSERT(n >= 0 && is_ring_plus_detached(c, n),
                 "C08.lifo_chain_sorted.post.single_writer_chain_holds_every_ring_task_and_every_detached_task_exactly_once");
        for (int i = 0; i < N; i++) g_mine[i] = 0;
        g_phase = 2;
    }
#endif
    V_ASSERT(g_phase == 2, "C08.lifo_chain_sorted.post.returns_only_after_its_last_linearisation_point");
    for (int i = 0; i < N; i++)
        V_ASSERT(!g_mine[i], "C08.lifo_chain_sorted.post.no_task_left_private_every_task_it_owned_is_in_the_lifo");
    post_common();
    V_CANARY("rg_chain_sorted");
}

/* ------------------------------------------------------------------ helper: lifo_merge_ring */
/* requires list = NULL-terminated chain of the detached items (S0 here), ring a well-formed ring of K other items
 * ensures  result = acyclic NULL-terminated chain holding every item of both exactly once */
void h_merge_ring(void)
{
    parsec_list_item_t *ring = setup(0);
    parsec_list_item_t *list = HEAD;             /* the chain S0, as detached */
    parsec_list_item_t *r = lifo_merge_ring(list, ring, PRIO_OFF, vin.distance, vin.sorted != 0);
    uint8_t c[N]; for (int i = 0; i < N; i++) c[i] = 0;
    int n = walk_chain(r, c);
    V_ASSERT(n == vin.len0 + K, "C08.lifo_merge_ring.post.result_acyclic_null_terminated_with_list_plus_ring_length");
    for (int i = 0; i < N; i++) {
        int want = (i < K), got = 0;
        for (int j = 0; j < N; j++) { if (j < vin.len0 && vin.s0[j] == i) want++; if (j < n && c[j] == i) got++; }
        V_ASSERT(got == want, "C08.lifo_merge_ring.post.every_ring_item_and_every_list_item_exactly_once");
    }
    post_common();
    V_CANARY("merge_ring");
}
