/* C08 (part 4) - the hierarchical bounded buffer used by the lfq / lhq / ltq / pbq schedulers never loses or duplicates a
 * task: contracts (route harness) on the REAL parsec/hbbuffer.c, included verbatim:
 *   parsec_hbbuffer_push_all_by_priority (pbq), parsec_hbbuffer_push_all (lfq, lhq, ltq), parsec_hbbuffer_pop_best.
 *
 * State of one buffer of BSIZE slots: slot i is empty or holds a task ("resident").  Pool: tasks 0..BSIZE-1 are the possible
 * residents (slot i holds task i or nothing: the identity of the tasks does not matter), tasks BSIZE..BSIZE+K-1 are the ring
 * handed to push, task NT-1 is a foreign task the environment may install (rely/guarantee job).  One static parsec_task_t per
 * task, all priorities symbolic.
 * Representation invariant INV: every resident is a SINGLETON ring (list_next == list_prev == itself).  The code relies on it
 * ("Hopefully, best_context is already a singleton, because it was pushed by the same function"): an evicted resident is used
 * as a ring.  INV is pre- AND postcondition of both push functions (an empty buffer satisfies it, pop_best does not write links),
 * hence holds along every history of pushes and pops.
 * Parent store: a RECORDING stub that walks the ring it is given (must close on its head within NT steps, list_prev mirror of
 * list_next) and counts per task how often it was handed up.
 *
 *  push_all / push_all_by_priority (b, R, d)
 *     requires INV, R a well-formed ring of K tasks that are not residents, parent present
 *     ensures  every task of (residents before + R) is afterwards EITHER in exactly one slot OR was handed to the parent exactly
 *              once - never both, never twice, none lost, nothing else appears (multiset conservation)
 *              INV (every resident is a singleton again); parent called at most once, with a well-formed ring, distance d-1
 *              d != 0: nothing stored, whole ring handed up
 *              by_priority, d == 0, R in non-increasing priority order (what the code's comment expects from callers):
 *                 no resident has a lower priority than a task handed to the parent
 *              priorities not written
 *  pop_best(b, off)   ensures returns NULL iff the buffer is empty, else a resident of maximal priority; its slot is empty afterwards,
 *              every other slot unchanged, no list link and no priority written
 * Rely/guarantee job (h_rg_push_prio): between my reads of the slots and my compare-and-swap another thread may (at most MAXENV
 * times) put the foreign task into an empty slot ("Somebody stole my spot") or pop a resident; the multiset clause then reads:
 * every task of (residents + R + foreign task if installed) is in exactly one slot, or handed to the parent exactly once, or was
 * popped by the environment; INV still holds.
 * Shapes (BSIZE, K) are fixed per cbmc process (Job.bounded).
 */
#include "verif.h"
#ifndef VERIF_RG_POST_STEP
#define VERIF_RG_POST_STEP      /* the environment also acts after each of my atomic operations */
#endif
#include "verif_rg.h"
#include <stddef.h>
#include "parsec/parsec_internal.h"
#ifndef BSIZE
#define BSIZE 2
#endif
#ifndef K
#define K 2
#endif
#ifndef MAXENV
#define MAXENV 1
#endif
#define NT (BSIZE + K + 1)
#define FOREIGN (NT - 1)

/* The struct hack made explicit (same device as spec/C35/h_hbb.c): parsec/hbbuffer.h declares the slot array as items[1] and the
 * constructor allocates size-1 further pointers behind it; CBMC models items[i], i >= 1, only on untyped heap objects and then loses
 * the points-to information of the slots.  While the header is read the member name is rewritten so that the REAL declaration reads
 *     volatile parsec_list_item_t *items[BSIZE], *c08_tail[1];
 * (member offsets unchanged, checked below).  The function bodies of hbbuffer.c are compiled verbatim.  Native replay uses the real
 * layout. */
#ifndef VERIF_REPLAY
#define C08_EXPLICIT_SLOTS
#endif
#ifdef C08_EXPLICIT_SLOTS
static volatile parsec_list_item_t ***c08_tail;
#define items items[BSIZE], *c08_tail
#include "parsec/hbbuffer.h"
#undef items
#else
#include "parsec/hbbuffer.h"
#endif
/* address case split in front of the real compare-and-swap (the identity): &b->items[sym] becomes &B->items[i] for the concrete i */
static int c08_cas_ptr(volatile void *l, void *o, void *n);
#define parsec_atomic_cas_ptr c08_cas_ptr
#include "parsec/hbbuffer.c"
#undef parsec_atomic_cas_ptr

struct vin {
    uint8_t  occ[BSIZE];
    int32_t  prio[NT];
    int32_t  distance;
    uint8_t  env_act[8];        /* rg: what the environment does at its k-th opportunity: 0 nothing, 1 steal an empty slot, 2 pop */
    uint8_t  env_slot[8];
} vin;
#include "verif_vin.h"

static parsec_task_t t0, t1, t2, t3, t4, t5, t6, t7;
static parsec_task_t *const PT[8] = { &t0, &t1, &t2, &t3, &t4, &t5, &t6, &t7 };
#if NT > 8
#error "pool of at most 8 tasks"
#endif
#define ITEM(i) (&PT[i]->super)
static parsec_hbbuffer_t *B;
static int g_store;

static int idx_of(const volatile void *p)
{
    for (int i = 0; i < NT; i++) if (p == (const volatile void *)PT[i]) return i;
    return -1;
}
static int is_singleton(int j) { return ITEM(j)->list_next == ITEM(j) && ITEM(j)->list_prev == ITEM(j); }

/* ---- ghost ---- */
static int g_parent_calls, g_parent_ring_wf;
static int32_t g_parent_distance; static void *g_parent_store;
static uint8_t g_handed[NT];          /* how often task t was a member of a ring handed to the parent */
static uint8_t g_env_took[NT];        /* popped by the environment                                     */
static uint8_t g_env_put;             /* the foreign task was installed by the environment             */
static int g_env_on, g_env_k, g_env_done, g_cas_fail;

/* the recording parent store: walks the ring */
static void parent_push(void *store, parsec_list_item_t *elt, int32_t distance)
{
    g_parent_calls++; g_parent_store = store; g_parent_distance = distance;
    const volatile parsec_list_item_t *cur = elt;
    int closed = 0;
    for (int s = 0; s < NT; s++) {
        int j = idx_of((const volatile void *)cur);
        if (j < 0) { g_parent_ring_wf = 0; break; }
        g_handed[j]++;
        const volatile parsec_list_item_t *nx = ITEM(j)->list_next;
        int n = idx_of((const volatile void *)nx);
        if (n < 0 || ITEM(n)->list_prev != cur) { g_parent_ring_wf = 0; break; }
        cur = nx;
        if (cur == elt) { closed = 1; break; }
    }
    if (!closed) g_parent_ring_wf = 0;
}

/* ---- environment (rely): acts before my compare-and-swap on a slot ---- */
void verif_env_step(int op, volatile void *loc)
{
    (void)loc;
    if (!g_env_on || op != V_OP_CAS) return;
    if (g_env_k >= 8 || g_env_done >= MAXENV) return;
    int k = g_env_k++;
    unsigned a = vin.env_act[k], s = vin.env_slot[k];
    if (a == 0) return;
    V_ASSUME(s < BSIZE);
    for (int i = 0; i < BSIZE; i++) {
        if ((unsigned)i != s) continue;
        if (a == 1) {                 /* another thread pushes its own (singleton) task into an empty slot */
            V_ASSUME(B->items[i] == NULL && !g_env_put);
            B->items[i] = ITEM(FOREIGN); g_env_put = 1; g_env_done++;
        } else {                      /* another thread pops a resident (parsec_hbbuffer_pop_best) */
            int j = idx_of((const volatile void *)B->items[i]);
            V_ASSUME(j >= 0);
            B->items[i] = NULL; g_env_took[j]++; g_env_done++;
        }
    }
}
void verif_own_step(int op, volatile void *loc, int success)
{
    (void)loc;
    if (op == V_OP_CAS && !success) g_cas_fail++;
}
static int c08_cas_ptr(volatile void *l, void *o, void *n)
{
#ifdef C08_EXPLICIT_SLOTS
    for (int i = 0; i < BSIZE; i++)
        if (l == (volatile void *)&B->items[i]) return parsec_atomic_cas_ptr(&B->items[i], o, n);
#endif
    return parsec_atomic_cas_ptr(l, o, n);
}

#ifdef C08_EXPLICIT_SLOTS
_Static_assert(offsetof(parsec_hbbuffer_t, items) == 5 * sizeof(void *) &&
               sizeof(parsec_hbbuffer_t) == (5 + BSIZE + 1) * sizeof(void *), "parsec_hbbuffer_t layout changed");
static parsec_hbbuffer_t c08_buf;
static int c08_callocs;
void *calloc(size_t n, size_t sz)       /* serves the one buffer the real constructor allocates, from a typed static object */
{
    __CPROVER_assert(n * sz >= (5 + BSIZE) * sizeof(void *), "C08.hbbuffer_new.post.allocates_header_plus_size_slots");
    __CPROVER_assert(c08_callocs == 0, "C08.hbb_harness.calloc_stub_serves_one_buffer");
    c08_callocs++;
    return &c08_buf;
}
#endif

static int nocc;
static parsec_list_item_t *build(int env_on)
{
    vin_load();
    B = parsec_hbbuffer_new(BSIZE, 1, parent_push, &g_store);        /* the real constructor */
    nocc = 0;
    for (int i = 0; i < NT; i++) {
        PT[i]->priority = vin.prio[i];
        parsec_list_item_singleton(ITEM(i));                         /* PRE INV: residents (and the foreign task) are singletons */
        g_handed[i] = 0; g_env_took[i] = 0;
    }
    for (int i = 0; i < BSIZE; i++) if (vin.occ[i]) { B->items[i] = ITEM(i); nocc++; }
    g_parent_calls = 0; g_parent_ring_wf = 1; g_cas_fail = 0; g_env_on = env_on; g_env_k = 0; g_env_done = 0; g_env_put = 0;
    /* the ring, in pool order, built with the real primitive */
    parsec_list_item_t *ring = ITEM(BSIZE);
    for (int m = 1; m < K; m++) parsec_list_item_ring_push(ring, ITEM(BSIZE + m));
    return ring;
}

static uint8_t in_slot[NT];
static int slots_in_pool;
static void observe(void)
{
    for (int t = 0; t < NT; t++) in_slot[t] = 0;
    slots_in_pool = 1;
    for (int i = 0; i < BSIZE; i++) {
        const volatile void *p = (const volatile void *)B->items[i];
        if (p == NULL) continue;
        int j = idx_of(p);
        if (j < 0) slots_in_pool = 0; else in_slot[j]++;
    }
}

static void post_push(const char *unused, int by_prio, int rg)
{
    (void)unused;
    observe();
    V_ASSERT(slots_in_pool, "C08.hbbuffer_push.post.slots_hold_only_residents_or_pushed_tasks");
    V_ASSERT(g_parent_calls <= 1, "C08.hbbuffer_push.post.parent_called_at_most_once");
    V_ASSERT(g_parent_ring_wf, "C08.hbbuffer_push.post.ring_handed_to_parent_is_a_well_formed_ring");
    if (g_parent_calls) {
        V_ASSERT(g_parent_store == (void *)&g_store && g_parent_distance == vin.distance - 1,
                 "C08.hbbuffer_push.post.parent_gets_its_store_and_distance_minus_1");
    }
    for (int t = 0; t < NT; t++) {
        int was = (t < BSIZE) ? (vin.occ[t] != 0) : (t == FOREIGN) ? (g_env_put != 0) : 1;
        V_ASSERT(in_slot[t] + g_handed[t] + g_env_took[t] == was,
                 "C08.hbbuffer_push.post.every_task_in_exactly_one_slot_or_handed_to_parent_exactly_once_none_lost_none_twice");
    }
    /* INV preserved */
    for (int i = 0; i < BSIZE; i++) {
        int j = idx_of((const volatile void *)B->items[i]);
        if (j >= 0) V_ASSERT(is_singleton(j), "C08.hbbuffer_push.inv.every_resident_is_a_singleton_ring");
    }
    for (int t = 0; t < NT; t++) V_ASSERT(PT[t]->priority == vin.prio[t], "C08.hbbuffer_push.post.frame_priorities_not_written");
    if (!rg) V_ASSERT(g_cas_fail == 0, "C08.hbbuffer_push.post.no_failed_cas_without_interference");
    if (vin.distance != 0) {
        V_ASSERT(g_parent_calls == 1, "C08.hbbuffer_push.post.nonzero_distance_forwards_the_ring");
        for (int t = BSIZE; t < BSIZE + K; t++) V_ASSERT(g_handed[t] == 1 && !in_slot[t], "C08.hbbuffer_push.post.nonzero_distance_stores_nothing");
    } else if (by_prio) {
        int sorted = 1;
        for (int m = 1; m < K; m++) if (vin.prio[BSIZE + m - 1] < vin.prio[BSIZE + m]) sorted = 0;
        if (sorted && !rg)
            for (int e = 0; e < NT; e++) for (int r = 0; r < NT; r++)
                V_ASSERT(V_IMPLIES(g_handed[e] && in_slot[r], vin.prio[r] >= vin.prio[e]),
                         "C08.push_all_by_priority.post.sorted_ring_no_resident_has_lower_priority_than_a_task_handed_to_the_parent");
    }
}

void h_push_prio(void)
{
    parsec_list_item_t *ring = build(0);
    parsec_hbbuffer_push_all_by_priority(B, ring, vin.distance);
    post_push("", 1, 0);
    V_CANARY("push_prio");
}
void h_push_all(void)
{
    parsec_list_item_t *ring = build(0);
    parsec_hbbuffer_push_all(B, ring, vin.distance);
    post_push("", 0, 0);
    if (vin.distance == 0)
        for (int i = 0; i < BSIZE; i++) if (vin.occ[i]) V_ASSERT(B->items[i] == ITEM(i), "C08.push_all.post.residents_stay_in_their_slots");
    V_CANARY("push_all");
}
void h_rg_push_prio(void)
{
    parsec_list_item_t *ring = build(1);
    V_ASSUME(vin.distance == 0);
    parsec_hbbuffer_push_all_by_priority(B, ring, 0);
    post_push("", 1, 1);
#ifndef VERIF_REPLAY
    __CPROVER_assert(g_cas_fail == 0, "CANARY rg_push_prio: a run in which one of my compare-and-swaps fails is reachable");
#endif
    V_CANARY("rg_push_prio");
}
void h_rg_push_all(void)
{
    parsec_list_item_t *ring = build(1);
    V_ASSUME(vin.distance == 0);
    parsec_hbbuffer_push_all(B, ring, 0);
    post_push("", 0, 1);
#ifndef VERIF_REPLAY
    __CPROVER_assert(g_cas_fail == 0, "CANARY rg_push_all: a run in which one of my compare-and-swaps fails is reachable");
#endif
    V_CANARY("rg_push_all");
}

void h_pop_best(void)
{
    (void)build(0);
    parsec_list_item_t *r = parsec_hbbuffer_pop_best(B, parsec_execution_context_priority_comparator);
    observe();
    int j = idx_of(r);
    V_ASSERT(V_IFF(r == NULL, nocc == 0), "C08.hbbuffer_pop_best.post.NULL_iff_buffer_empty");
    if (r != NULL) {
        V_ASSERT(j >= 0 && j < BSIZE && vin.occ[j >= 0 && j < BSIZE ? j : 0], "C08.hbbuffer_pop_best.post.returns_a_resident");
        for (int i = 0; i < BSIZE; i++)
            if (vin.occ[i]) V_ASSERT(vin.prio[j >= 0 ? j : 0] >= vin.prio[i], "C08.hbbuffer_pop_best.post.returns_a_resident_of_maximal_priority");
    }
    for (int t = 0; t < BSIZE; t++)
        V_ASSERT(in_slot[t] == ((vin.occ[t] != 0) && t != j), "C08.hbbuffer_pop_best.post.only_the_returned_task_leaves_the_buffer_exactly_once");
    for (int i = 0; i < BSIZE; i++)
        if (vin.occ[i] && i != j) V_ASSERT(B->items[i] == ITEM(i), "C08.hbbuffer_pop_best.post.other_slots_unchanged");
    for (int t = 0; t < NT; t++) {
        V_ASSERT(is_singleton(t), "C08.hbbuffer_pop_best.inv.no_list_link_written_residents_stay_singletons");
        V_ASSERT(PT[t]->priority == vin.prio[t], "C08.hbbuffer_pop_best.post.frame_priorities_not_written");
    }
    V_CANARY("pop_best");
}
