/* OBSERVATION recorded by C06 (job add.default_detector_zero_counts), not a violation of the property: during
 * parsec_context_add_taskpool of a detector-less taskpool with zero counts active_taskpools is transiently one below
 * (number of unfinished taskpools + start token).  A concurrent parsec_context_test may read 0 in that window;
 * parsec_context_wait is protected by the end-of-epoch barrier (worker side, not under contract).
 *
 * A DTD taskpool A is added to a started context (active_taskpools == 2: A + token) and runs ONE task on a worker thread.
 * The task adds taskpools that have no termination detector and no work (what parsec_compose() hands to
 * parsec_context_add_taskpool: tdm.module == NULL, nb_pending_actions == 0).  parsec_context_add_taskpool installs the
 * local detector and declares the taskpool READY before it increments active_taskpools; ready() finds zero counts and
 * reports termination at once, so parsec_taskpool_termination_detected decrements first: 2 -> 1 -> 2.
 * The user thread samples the counter meanwhile: every sample of 1 is a state in which the counter is one short
 * (with the token dropped it would read 0 == "all tasks done" while A's task is running: a thread that polls
 * all_tasks_done() then leaves its work loop and parks at the end-of-epoch barrier; parsec_context_wait itself is still
 * held back by that barrier until the worker running the task arrives).
 *
 * Build:  gcc -O1 transient_counter.c -I/repo/_build/parsec/include -I/repo/_build -I/repo/parsec/include -I/repo \
 *             -I/usr/lib/x86_64-linux-gnu/openmpi/include -L/repo/_build/parsec -lparsec -Wl,-rpath,/repo/_build/parsec \
 *             /usr/lib/x86_64-linux-gnu/openmpi/lib/libmpi.so -lpthread -o transient_counter
 * Run:    OMPI_ALLOW_RUN_AS_ROOT=1 OMPI_ALLOW_RUN_AS_ROOT_CONFIRM=1 ./transient_counter     (exit 1 = transient dip observed)
 */
#include "parsec/runtime.h"
#include "parsec/parsec_internal.h"
#include "parsec/execution_stream.h"
#include "parsec/interfaces/dtd/insert_function.h"
#include <stdio.h>
#include <stdlib.h>
#include <unistd.h>
#if defined(PARSEC_HAVE_MPI)
#include <mpi.h>
#endif

static parsec_context_t *ctx;
static volatile int task_running = 0, stop = 0;
static volatile long adds = 0;

static int adder(parsec_execution_stream_t *es, parsec_task_t *this_task)
{
    (void)es; (void)this_task;
    parsec_taskpool_t *b = PARSEC_OBJ_NEW(parsec_taskpool_t);   /* bare taskpool object: no detector, no work, no callbacks */
    task_running = 1;
    while (!stop) {
        b->tdm.module = NULL; b->tdm.callback = NULL; b->tdm.monitor = NULL;   /* no detector installed */
        b->nb_tasks = 0; b->nb_pending_actions = 0; b->startup_hook = NULL; b->on_complete = NULL;
        parsec_context_add_taskpool(ctx, b);
        parsec_context_remove_taskpool(b);        /* take it out of the context's list again so that it can be re-used */
        adds++;
    }
    return PARSEC_HOOK_RETURN_DONE;
}

int main(int argc, char **argv)
{
#if defined(PARSEC_HAVE_MPI)
    int provided; MPI_Init_thread(&argc, &argv, MPI_THREAD_SERIALIZED, &provided);
#endif
    ctx = parsec_init(2, &argc, &argv);
    parsec_taskpool_t *A = parsec_dtd_taskpool_new();
    parsec_context_add_taskpool(ctx, A);
    parsec_context_start(ctx);
    printf("A added, context started: active_taskpools=%d (A + token)\n", ctx->active_taskpools);
    parsec_dtd_insert_task(A, adder, 0, PARSEC_DEV_CPU, "adder", PARSEC_DTD_ARG_END);
    for (int i = 0; i < 5000 && !task_running; i++) usleep(1000);      /* let a worker pick the task up */
    if (!task_running) { printf("task was not picked up by a worker; inconclusive\n"); _exit(2); }
    long h[4] = {0, 0, 0, 0};
    for (long i = 0; i < 20000000L; i++) { int v = ctx->active_taskpools; if (v >= 0 && v < 3) h[v]++; else h[3]++; }
    stop = 1;
    printf("while A's task was adding %ld detector-less empty taskpools: samples of active_taskpools  ==2: %ld   ==1: %ld   ==0: %ld   other: %ld\n",
           adds, h[2], h[1], h[0], h[3]);
    if (h[1] || h[0]) {
        printf("OBSERVED: active_taskpools was read below (unfinished taskpools + token) = 2 while A was unfinished\n");
        fflush(stdout); _exit(1);
    }
    printf("transient not observed in this run\n");
    fflush(stdout); _exit(0);
}
