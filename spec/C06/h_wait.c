/* C06 - wait and completion calls return exactly when the work is done (accounting part).
 *
 * Contracts on the REAL parsec/scheduling.c (included verbatim, harness route + rely/guarantee hooks of verif_rg.h):
 *   parsec_context_add_taskpool, parsec_taskpool_termination_detected, parsec_context_start, parsec_context_wait
 *   (with the real __parsec_context_wait master path, parsec_context_enter_wait / _leave_wait, all_tasks_done),
 *   parsec_taskpool_wait (with the real __parsec_taskpool_wait), parsec_context_test.
 *
 * Ghost state (from the property statement):
 *   g_unfinished  taskpools added to the context and not yet termination-detected
 *   g_token       0/1: the extra reference parsec_context_start takes and parsec_context_wait drops
 *   Inv:          ctx.active_taskpools == g_unfinished + g_token,  g_unfinished >= 0
 *   Inv2 (between the calls of the user thread):  g_token == 1  <=>  CONTEXT_ACTIVE flag set and not inside wait
 *
 * Rely (what the other threads do between two of my shared accesses; one environment step = any number of tasks and
 * completion callbacks run by any thread): while g_unfinished > 0 taskpools may be added (by running tasks / completion
 * callbacks, through parsec_context_add_taskpool: counter and g_unfinished +1 each) and may terminate (through
 * parsec_taskpool_termination_detected: -1 each), so g_unfinished moves to ANY value >= g_mine (taskpools whose
 * termination is in MY hands cannot be terminated by somebody else); Inv is preserved; when g_unfinished == 0 nobody
 * but the user thread can add (no task and no callback is running).  The environment never touches the flags word, the
 * token, the finalization counter (owned by the user thread).
 * Guarantee (checked at each of my atomic operations on ctx.active_taskpools, verif_own_step): the word changes only
 * through my atomic +1 / -1, each of which is justified by a ghost transition (count a taskpool once / un-count a
 * COUNTED taskpool once / take / drop the token), after which Inv holds again.
 *
 * OBSERVATION (job add.default_detector_zero_counts, -DZERO_COUNTS): during parsec_context_add_taskpool of a
 * detector-less taskpool with zero counts the counter is transiently one below unfinished + token (decrement inside
 * taskpool_ready before the increment).  In that job - and only there - the per-step invariant is not required inside
 * the call; required instead: the dip is exactly one, on_complete exactly once, net change of the counter 0 (one
 * decrement, then one increment), Inv again when add_taskpool returns, counter written only by atomic operations.
 *
 * Environment steps happen at every atomic operation / lock of the real code (before and after: VERIF_RG_POST_STEP)
 * and inside every stub that stands for "time passes": scheduler select, taskpool_state, barrier, nanosleep,
 * communication progress, the callbacks.
 */
#include "verif.h"
#ifndef VERIF_RG_POST_STEP
#define VERIF_RG_POST_STEP
#endif
#include "verif_rg.h"
#include "parsec/parsec_config.h"
#include "parsec/parsec_internal.h"
#include "parsec/parsec_comm_engine.h"
#include "parsec/scheduling.c"

#ifndef NL
#define NL 2                 /* taskpools already registered in context->taskpool_list */
#endif
#ifndef KLOOP
#define KLOOP 3              /* iterations of a wait loop before the environment must have finished the work */
#endif
#ifndef NENV
#define NENV 48
#endif
#ifndef NEPOCH
#define NEPOCH 2
#endif
#define UMAX (1 << 30)       /* fewer than 2^30 unfinished taskpools (no int32 wrap of the counter) */
#define NRDP 2               /* successful communication-progress calls per run */

struct vin {
    int32_t  flags0;                 /* context->flags when the call starts                                   */
    int32_t  unfinished0;            /* ghost: taskpools added and not finished when the call starts          */
    uint8_t  token0;                 /* add / termination_detected / test: token held or not                  */
    int32_t  fin_counter0;
    int32_t  env_u[NENV];            /* environment: new number of unfinished taskpools                       */
    uint8_t  env_rank[NENV];         /* environment: new state of the watched taskpool's detector             */
    uint8_t  has_detector, has_on_enqueue, has_on_enter_wait, has_on_leave_wait, has_on_complete, has_startup;
    uint8_t  sched_present, startup_makes_task, keep_highest, has_sched_obj;
    uint8_t  ready_terminates;       /* taskpool_ready finds zero counts (job add.default_detector_zero_counts)      */
    uint8_t  cb_adds;                /* the completion callback adds another taskpool (compound: the next one)*/
    int32_t  cb_rc, sched_rc;
    int32_t  comm_up, nb_nodes;
    int32_t  rdp[NRDP + 1];
    uint8_t  lst_enter[NL + 1], lst_leave[NL + 1];  /* listed taskpools have on_enter_wait / on_leave_wait    */
    uint8_t  ctx_null;               /* taskpool_wait: taskpool not registered                                */
    uint8_t  rank0;                  /* taskpool_wait: state of the detector at the call                      */
} vin;
#include "verif_vin.h"

/* ------------------------------------------------------------------ objects */
static parsec_context_t          ctx;
static parsec_vp_t               vp;
static parsec_execution_stream_t es;
static parsec_list_t             tplist;
static parsec_taskpool_t         tpA;            /* the taskpool the call is about */
static parsec_taskpool_t         tpL[NL + 1];    /* taskpools already in the list  */
static parsec_task_t             startup_task;
static parsec_sched_base_component_t sched_comp;
static parsec_sched_module_t     sched;
static int                       sched_object;

/* ------------------------------------------------------------------ ghost */
enum { FN_NONE = 0, FN_ADD, FN_TERM, FN_START, FN_WAIT, FN_TPWAIT, FN_TEST };
static int     g_fn;                 /* which function under contract is running (who owns the atomic steps)  */
static int32_t g_unfinished, g_token, g_mine;
static int     g_counted;            /* tpA has been counted in active_taskpools                               */
static int     g_early, g_dip, g_in_ready; /* ZERO_COUNTS job: tpA reported terminated before it was counted / counter one short */
static int32_t g_shadow;             /* value of the counter after the last hook: it may change only by my atomics */
static int32_t g_before;             /* value just before my atomic step                                       */
static int     g_own_inc, g_own_dec, g_envi, g_frozen;
static int     g_seq;
static int     g_seq_inc, g_seq_dec;
static int     g_n_enqueue, g_seq_enqueue, g_n_enter, g_seq_enter, g_n_leave, g_seq_leave;
static int     g_n_oc, g_seq_oc, g_oc_args_ok, g_oc_dec_done;
static int32_t g_oc_unfinished;
static int     g_n_startup, g_seq_startup, g_startup_args_ok, g_n_sched, g_seq_sched, g_sched_args_ok;
static int     g_n_open, g_seq_open, g_open_local, g_n_monitor, g_seq_monitor, g_monitor_cb_ok, g_n_ready, g_seq_ready;
static int     g_n_install, g_n_pins_fini, g_seq_pins_fini;
static int     g_n_barrier, g_seq_barrier;
static int32_t g_barrier_active, g_barrier_unfinished, g_barrier_flags;
static int     g_n_select, g_n_state, g_seq_state_first, g_seq_state_last, g_last_state;
static int     g_rank;               /* detector of tpA: PARSEC_TERM_TP_* (monotone within an epoch: C10)      */
static int     g_n_dep_on, g_n_dep_off, g_n_ce_enable, g_rdpi, g_n_fatal;
static int     g_lst_enter[NL + 1], g_lst_leave[NL + 1], g_lst_enter_seq[NL + 1], g_lst_leave_seq[NL + 1];

#define INV() (ctx.active_taskpools == g_unfinished + g_token && g_unfinished >= 0 && g_unfinished <= UMAX && (g_token == 0 || g_token == 1))

/* ------------------------------------------------------------------ environment */
static void env_act(void)
{
    /* guarantee: between two hooks the counter is written by nobody (in particular not by a plain store of mine) */
    V_ASSERT(ctx.active_taskpools == g_shadow, "C06.guar.active_taskpools_written_only_by_atomic_operations");
    V_ASSERT(g_envi < NENV, "C06.harness.inv.environment_budget_sufficient");
    if (g_envi < NENV) {
        int32_t nu = vin.env_u[g_envi];
        uint8_t nr = vin.env_rank[g_envi];
        g_envi++;
        if (!g_frozen) {
            if (g_unfinished > 0 && nu >= g_mine && nu >= 0 && nu < UMAX) {
                /* adds / terminations by the other threads move counter and ghost by the same amount
                 * (g_dip is 0 except inside the one call of job add.default_detector_zero_counts) */
                g_unfinished = nu;
                ctx.active_taskpools = g_unfinished + g_token - g_dip;
            }
            if (nr <= PARSEC_TERM_TP_TERMINATED && nr >= g_rank) g_rank = nr;
        }
    }
    g_shadow = ctx.active_taskpools;
}

void verif_env_step(int op, volatile void *loc)
{
    (void)op;
    env_act();
    if (loc == (volatile void*)&ctx.active_taskpools) g_before = ctx.active_taskpools;
}

void verif_own_step(int op, volatile void *loc, int success)
{
    (void)success;
    if (loc != (volatile void*)&ctx.active_taskpools) return;
    V_ASSERT(op == V_OP_FETCH, "C06.guar.counter_changed_only_by_fetch_inc_dec");
    int32_t delta = ctx.active_taskpools - g_before;
    g_seq++;
    if (delta == 1) {
        g_own_inc++; g_seq_inc = g_seq;
        if (g_fn == FN_ADD) {
            V_ASSERT(!g_counted, "C06.add_taskpool.guar.taskpool_counted_at_most_once");
#ifdef ZERO_COUNTS
            if (g_early) {
                /* tpA was reported terminated from inside taskpool_ready: this increment only makes up for the
                 * decrement already done; tpA is finished, it does not become an unfinished taskpool */
                V_ASSERT(g_dip == 1, "C06.add_taskpool.guar.increment_makes_up_for_exactly_one_early_decrement");
                g_dip = 0;
            } else
#endif
            { g_counted = 1; g_unfinished++; }
        } else if (g_fn == FN_START) {
            V_ASSERT(g_token == 0, "C06.context_start.guar.token_taken_only_when_not_held");
            g_token = 1;
        } else {
            V_ASSERT(0, "C06.guar.no_increment_outside_add_and_start");
        }
    } else if (delta == -1) {
        g_own_dec++; g_seq_dec = g_seq;
        if (g_fn == FN_TERM) {
            /* the decrement un-counts tpA: it must have been counted before (else the counter drops below the
             * number of unfinished taskpools + token and a waiter can observe a zero that is not one) */
#ifdef ZERO_COUNTS
            if (!g_counted && g_in_ready && !g_early) {
                /* OBSERVATION (job add.default_detector_zero_counts only): default-detector path of add_taskpool, zero
                 * counts: the taskpool is reported terminated from inside taskpool_ready, BEFORE add_taskpool counts it.
                 * From here until the increment the counter is exactly one below unfinished + token. */
                g_early = 1; g_dip = 1;
            } else
#endif
            {
            /* the decrement un-counts tpA: it must have been counted before (else the counter drops below the
             * number of unfinished taskpools + token and a waiter can observe a zero that is not one) */
            V_ASSERT(g_counted, "C06.termination_detected.guar.decrement_only_for_a_counted_taskpool");
            g_counted = 0; g_unfinished--; if (g_mine > 0) g_mine--;
            }
        } else if (g_fn == FN_WAIT) {
            V_ASSERT(g_token == 1, "C06.context_wait.guar.drops_only_a_token_that_is_held");
            g_token = 0;
        } else {
            V_ASSERT(0, "C06.guar.no_decrement_outside_termination_and_wait");
        }
    } else {
        V_ASSERT(0, "C06.guar.own_step_is_plus_or_minus_one");
    }
#ifdef ZERO_COUNTS
    if (g_dip)   /* inside this one call the per-step invariant is not required; the dip is exactly one */
        V_ASSERT(ctx.active_taskpools == g_unfinished + g_token - 1 && g_unfinished >= 0 && g_unfinished <= UMAX,
                 "C06.add_taskpool.obs.transient_dip_is_exactly_one_below_unfinished_plus_token");
    else
#endif
    V_ASSERT(INV(), "C06.inv.active_taskpools_equals_unfinished_plus_token_after_own_step");
    g_shadow = ctx.active_taskpools;
}

/* ------------------------------------------------------------------ stubs: "time passes" */
parsec_execution_stream_t *parsec_my_execution_stream(void) { return &es; }

#ifndef VERIF_REPLAY
int rand_r(unsigned int *seed) { (void)seed; return 0; }   /* back-off time of the wait loops: irrelevant, keeps the floating point of backoff.h constant */
#endif

#ifdef parsec_barrier_wait   /* barrier.h maps the barrier onto pthread_barrier_* when the platform has it */
int pthread_barrier_wait(pthread_barrier_t *b)
#else
int parsec_barrier_wait(parsec_barrier_t *b)
#endif
{
    (void)b;
    g_n_barrier++; g_seq_barrier = ++g_seq;
    g_barrier_active = ctx.active_taskpools; g_barrier_unfinished = g_unfinished; g_barrier_flags = ctx.flags;
    env_act();
    return 0;
}
/* one environment step per round of a wait loop is enough (the rely is transitive and the real code makes no shared
 * access between select, nanosleep and the communication progress): it sits in the scheduler's select */
int nanosleep(const struct timespec *a, struct timespec *b) { (void)a; (void)b; return 0; }

static parsec_task_t *stub_select(parsec_execution_stream_t *e, int32_t *distance)
{
    (void)e; *distance = 0;
    g_n_select++;
    env_act();
    if (g_n_select >= KLOOP) {
        /* bounded stand-in: the work is over after KLOOP rounds at the latest (liveness is not claimed) */
        if (g_fn == FN_WAIT) {
            if (g_unfinished > 0) { V_ASSUME(g_mine == 0); g_unfinished = 0; ctx.active_taskpools = g_token; g_shadow = ctx.active_taskpools; }
        }
        if (g_fn == FN_TPWAIT) g_rank = PARSEC_TERM_TP_TERMINATED;
    }
    return NULL;     /* tasks run by this thread itself have the effects of an environment step (C16 for the mechanics) */
}
static int stub_schedule(parsec_execution_stream_t *e, parsec_task_t *ring, int32_t distance)
{
    g_n_sched++; g_seq_sched = ++g_seq;
    g_sched_args_ok = (e == &es && ring == &startup_task && distance == 0);
    env_act();       /* the task is visible to the other threads from here */
    return vin.sched_rc;
}
static int stub_install(parsec_context_t *c) { (void)c; g_n_install++; return 0; }
static void stub_remove(parsec_context_t *c) { (void)c; }

/* MCA repository (only reached when no scheduler is installed yet) */
mca_base_component_t **mca_components_open_bytype(char *type) { (void)type; return NULL; }
void mca_components_query(mca_base_component_t **o, mca_base_module_t **m, mca_base_component_t **c)
{ (void)o; *m = (mca_base_module_t*)&sched; *c = (mca_base_component_t*)&sched_comp; }
void mca_components_close(mca_base_component_t **o) { (void)o; }
void mca_component_close(mca_base_component_t *o) { (void)o; }

/* PINS */
void parsec_pins_instrument(struct parsec_execution_stream_s *e, PARSEC_PINS_FLAG f, struct parsec_task_s *t) { (void)e; (void)f; (void)t; }
void parsec_pins_taskpool_init(struct parsec_taskpool_s *tp) { (void)tp; }
void parsec_pins_taskpool_fini(struct parsec_taskpool_s *tp) { (void)tp; g_n_pins_fini++; g_seq_pins_fini = ++g_seq; }
void parsec_pins_thread_fini(struct parsec_execution_stream_s *e) { (void)e; }

/* communication engine */
#ifndef VERIF_REPLAY
int parsec_communication_engine_up;
parsec_comm_engine_t parsec_ce;
int parsec_runtime_keep_highest_priority_task;
void parsec_output(int id, const char *fmt, ...) { (void)id; (void)fmt; }
void parsec_output_verbose(int lvl, int id, const char *fmt, ...) { (void)lvl; (void)id; (void)fmt; }
pid_t getpid(void) { return 1; }
#endif
static int stub_ce_enable(parsec_comm_engine_t *ce) { (void)ce; g_n_ce_enable++; return 0; }
int remote_dep_dequeue_on(parsec_context_t *c) { (void)c; g_n_dep_on++; return 0; }
int remote_dep_dequeue_off(parsec_context_t *c) { (void)c; g_n_dep_off++; return 0; }
int remote_dep_dequeue_nothread_progress(parsec_execution_stream_t *e, int cycles)
{
    (void)e; (void)cycles;
    if (g_rdpi < NRDP) { int r = vin.rdp[g_rdpi]; g_rdpi++; return r; }
    return 0;
}
int remote_dep_ce_reconfigure(parsec_context_t *c) { (void)c; return 0; }
int parsec_remote_dep_reconfigure(parsec_context_t *c) { (void)c; return 0; }

static void stub_exit(int status)
{
    (void)status; g_n_fatal++;
#ifdef VERIF_REPLAY
    printf("REPLAY: parsec_fatal reached\n"); exit(0);
#else
    __CPROVER_assume(0);
#endif
}
#ifndef VERIF_REPLAY
void (*parsec_weaksym_exit)(int status) = stub_exit;
#endif

/* ------------------------------------------------------------------ stubs: termination detector (C10) */
static void stub_monitor(parsec_taskpool_t *tp, parsec_termdet_termination_detected_function_t cb)
{
    g_n_monitor++; g_seq_monitor = ++g_seq;
    g_monitor_cb_ok = (tp == &tpA && cb == parsec_taskpool_termination_detected);
    tp->tdm.callback = cb;
    g_rank = PARSEC_TERM_TP_NOT_READY;
}
static int stub_ready(parsec_taskpool_t *tp)
{
    g_n_ready++; g_seq_ready = ++g_seq;
    if (g_rank < PARSEC_TERM_TP_BUSY) g_rank = PARSEC_TERM_TP_BUSY;
#ifdef ZERO_COUNTS
    /* contract of the local detector (C10): a taskpool that is declared ready with zero counts is reported
     * terminated at once, by the thread that declared it ready */
    if (vin.ready_terminates && tp->tdm.callback != NULL) {
        int fn = g_fn;
        g_fn = FN_TERM; g_in_ready = 1;
        if (g_counted) g_mine++;
        tp->tdm.callback(tp);
        g_fn = fn; g_in_ready = 0;
        g_rank = PARSEC_TERM_TP_TERMINATED;
    }
#else
    (void)tp;
#endif
    return 0;
}
static parsec_termdet_taskpool_state_t stub_state(parsec_taskpool_t *tp)
{
    (void)tp;
    env_act();
    g_n_state++; g_seq_state_last = ++g_seq;
    if (g_n_state == 1) g_seq_state_first = g_seq;
    g_last_state = g_rank;
    return (parsec_termdet_taskpool_state_t)g_rank;
}
static parsec_termdet_module_t stub_tdm;
int parsec_termdet_open_module(parsec_taskpool_t *tp, char *name)
{
    g_n_open++; g_seq_open = ++g_seq;
    g_open_local = (tp == &tpA && name[0] == 'l' && name[1] == 'o' && name[2] == 'c' && name[3] == 'a' && name[4] == 'l' && name[5] == 0);
    tp->tdm.module = &stub_tdm.module;
    return 0;
}

/* ------------------------------------------------------------------ stubs: taskpool callbacks */
static int cb_enqueue(parsec_taskpool_t *tp, void *d)
{ g_n_enqueue++; g_seq_enqueue = ++g_seq; (void)tp; (void)d; env_act(); return 0; }
static int cb_enter(parsec_taskpool_t *tp, void *d)
{ g_n_enter++; g_seq_enter = ++g_seq; (void)tp; (void)d; env_act(); return 0; }
static int cb_leave(parsec_taskpool_t *tp, void *d)
{ g_n_leave++; g_seq_leave = ++g_seq; (void)tp; (void)d; env_act(); return 0; }
static int cb_complete(parsec_taskpool_t *tp, void *d)
{
    g_n_oc++; g_seq_oc = ++g_seq;
    g_oc_args_ok = (tp == &tpA && d == (void*)&g_n_oc);
    g_oc_dec_done = g_own_dec;
    g_oc_unfinished = g_unfinished;
    env_act();
    if (vin.cb_adds && g_unfinished < UMAX - 1) {
        /* "taskpools added from completion callbacks": contract of parsec_context_add_taskpool (job add.*) */
        g_unfinished++; ctx.active_taskpools++; g_shadow = ctx.active_taskpools;
    }
    return vin.cb_rc;
}
static int cb_lst_enter(parsec_taskpool_t *tp, void *d)
{ (void)d; ++g_seq; for (int i = 0; i < NL; i++) if (tp == &tpL[i]) { g_lst_enter[i]++; g_lst_enter_seq[i] = g_seq; } env_act(); return 0; }
static int cb_lst_leave(parsec_taskpool_t *tp, void *d)
{ (void)d; ++g_seq; for (int i = 0; i < NL; i++) if (tp == &tpL[i]) { g_lst_leave[i]++; g_lst_leave_seq[i] = g_seq; } env_act(); return 0; }
static void stub_startup(parsec_context_t *c, parsec_taskpool_t *tp, parsec_task_t **list)
{
    g_n_startup++; g_seq_startup = ++g_seq;
    g_startup_args_ok = (c == &ctx && tp == &tpA && list[0] == NULL);
    if (vin.startup_makes_task) {
        startup_task.super.list_next = &startup_task.super; startup_task.super.list_prev = &startup_task.super;
        list[0] = &startup_task;
    }
}

/* ------------------------------------------------------------------ symbolic pre-state */
static void build(void)
{
#ifdef VERIF_REPLAY
    parsec_weaksym_exit = stub_exit;
#endif
    /* all objects are static: zero-initialised */
    g_fn = FN_NONE; g_seq = 0; g_envi = 0; g_frozen = 0; g_own_inc = g_own_dec = 0; g_mine = 0; g_counted = 0;
    g_early = g_dip = g_in_ready = 0;
    g_n_enqueue = g_n_enter = g_n_leave = g_n_oc = g_n_startup = g_n_sched = g_n_open = g_n_monitor = g_n_ready = 0;
    g_n_install = g_n_pins_fini = g_n_barrier = g_n_select = g_n_state = g_n_dep_on = g_n_dep_off = g_n_ce_enable = 0;
    g_rdpi = g_n_fatal = 0; g_seq_inc = g_seq_dec = 0; g_last_state = -1;
    for (int i = 0; i <= NL; i++) { g_lst_enter[i] = g_lst_leave[i] = 0; }

    vp.parsec_context = &ctx; vp.vp_id = 0; vp.nb_cores = 1; vp.execution_streams[0] = &es;
    es.th_id = 0; es.virtual_process = &vp; es.next_task = NULL;
    es.scheduler_object = vin.has_sched_obj ? (void*)&sched_object : NULL;
    ctx.nb_vp = 1; ctx.virtual_processes[0] = &vp;
    ctx.nb_nodes = vin.nb_nodes;
    ctx.__parsec_internal_finalization_in_progress = 0;
    ctx.__parsec_internal_finalization_counter = vin.fin_counter0;
    V_ASSUME(vin.fin_counter0 >= 0 && vin.fin_counter0 < 1000000);
    ctx.flags = vin.flags0;
    V_ASSUME((vin.flags0 & ~0xF) == 0);

    /* the list of registered taskpools */
    tplist.ghost_element.list_next = &tplist.ghost_element; tplist.ghost_element.list_prev = &tplist.ghost_element;
    real_parsec_atomic_lock_init(&tplist.atomic_lock);
    ctx.taskpool_list = &tplist;
    for (int i = 0; i < NL; i++) {

        tpL[i].context = &ctx;
        tpL[i].on_enter_wait = vin.lst_enter[i] ? cb_lst_enter : NULL;
        tpL[i].on_leave_wait = vin.lst_leave[i] ? cb_lst_leave : NULL;
        tpL[i].super.list_next = &tpL[i].super; tpL[i].super.list_prev = &tpL[i].super;
        parsec_list_nolock_push_back(&tplist, &tpL[i].super);
    }

    /* scheduler module */
    sched.component = &sched_comp;
    sched.module.install = stub_install; sched.module.schedule = stub_schedule; sched.module.select = stub_select;
    sched.module.remove = stub_remove;
    parsec_current_scheduler = vin.sched_present ? &sched : NULL;
    scheduler_component = vin.sched_present ? &sched_comp : NULL;
    parsec_runtime_keep_highest_priority_task = vin.keep_highest ? 1 : 0;
    parsec_communication_engine_up = vin.comm_up;
    parsec_ce.enable = stub_ce_enable;

    /* detector stub */
    stub_tdm.module.monitor_taskpool = stub_monitor;
    stub_tdm.module.taskpool_ready = stub_ready;
    stub_tdm.module.taskpool_state = stub_state;

    /* the taskpool under consideration */
    tpA.super.list_next = &tpA.super; tpA.super.list_prev = &tpA.super;
    tpA.on_enqueue    = vin.has_on_enqueue    ? cb_enqueue  : NULL;
    tpA.on_enter_wait = vin.has_on_enter_wait ? cb_enter    : NULL;
    tpA.on_leave_wait = vin.has_on_leave_wait ? cb_leave    : NULL;
    tpA.on_complete   = vin.has_on_complete   ? cb_complete : NULL;
    tpA.on_complete_data = (void*)&g_n_oc;
    tpA.startup_hook  = vin.has_startup ? stub_startup : NULL;

    /* counter and ghost */
    V_ASSUME(vin.unfinished0 >= 0 && vin.unfinished0 < UMAX - 2);
    g_unfinished = vin.unfinished0;
}
static void set_counter(int token)
{
    g_token = token;
    ctx.active_taskpools = g_unfinished + g_token;
    g_shadow = ctx.active_taskpools; g_before = ctx.active_taskpools;
}
#define F_ACTIVE  PARSEC_CONTEXT_FLAG_CONTEXT_ACTIVE
#define F_COMM    PARSEC_CONTEXT_FLAG_COMM_ACTIVE
#define F_WAITING PARSEC_CONTEXT_FLAG_WAITING
/* the state in which the user thread finds the context before an epoch / between start and wait */
#define PRE_IDLE()    (!(ctx.flags & (F_ACTIVE | F_COMM | F_WAITING)) && g_token == 0 && INV())
#define PRE_STARTED() ((ctx.flags & F_ACTIVE) && g_token == 1 && INV())

static int in_list_once_at_back(parsec_taskpool_t *tp)
{
    int n = 0;
    parsec_list_item_t *it = tplist.ghost_element.list_next;
    for (int i = 0; i < NL + 2 && it != &tplist.ghost_element; i++, it = (parsec_list_item_t*)it->list_next)
        if (it == &tp->super) n++;
    return n == 1 && tplist.ghost_element.list_prev == &tp->super;
}

/* ================================================================== parsec_context_add_taskpool */
void h_add(void)
{
    vin_load(); build();
    set_counter(vin.token0 & 1);
    tpA.tdm.module = vin.has_detector ? &stub_tdm.module : NULL;
    tpA.tdm.callback = vin.has_detector ? parsec_taskpool_termination_detected : NULL;
    g_rank = vin.has_detector ? PARSEC_TERM_TP_NOT_READY : PARSEC_TERM_TP_NOT_MONITORED;
    int32_t flags0 = ctx.flags;

    g_fn = FN_ADD;
    int rc = parsec_context_add_taskpool(&ctx, &tpA);
    g_fn = FN_NONE;
    env_act();   /* also checks that nothing wrote the counter since the last hook */

    V_ASSERT(rc == PARSEC_SUCCESS, "C06.add_taskpool.post.returns_success");
    V_ASSERT(tpA.context == &ctx, "C06.add_taskpool.post.context_recorded_in_taskpool");
#ifndef ZERO_COUNTS
    V_ASSERT(g_own_inc == 1 && g_own_dec == 0 && g_counted, "C06.add_taskpool.post.taskpool_counted_exactly_once");
#else
    {   /* default-detector path with zero counts: the taskpool terminates inside the call */
        int zero_counts = !vin.has_detector && vin.ready_terminates;
        if (zero_counts) {
            V_ASSERT(g_early && g_own_dec == 1 && g_own_inc == 1 && g_seq_dec < g_seq_inc && g_dip == 0,
                     "C06.add_taskpool.post.zero_counts_net_change_of_counter_is_zero_one_decrement_then_one_increment");
            V_ASSERT(!g_counted, "C06.add_taskpool.post.zero_counts_taskpool_is_finished_not_counted_as_unfinished");
            V_ASSERT(g_n_oc == (vin.has_on_complete ? 1 : 0) && V_IMPLIES(g_n_oc, g_oc_args_ok && g_oc_dec_done == 0 && g_seq_oc < g_seq_dec),
                     "C06.add_taskpool.post.zero_counts_on_complete_called_exactly_once_before_the_decrement");
            V_ASSERT(g_n_pins_fini == 1, "C06.add_taskpool.post.zero_counts_termination_reported_exactly_once");
        } else {
            V_ASSERT(g_own_inc == 1 && g_own_dec == 0 && g_counted && !g_early, "C06.add_taskpool.post.taskpool_counted_exactly_once");
        }
    }
#endif
    V_ASSERT(INV(), "C06.add_taskpool.post.inv");
    V_ASSERT(ctx.flags == flags0, "C06.add_taskpool.post.flags_unchanged");
    /* ordering: the taskpool is counted before anything that can make it run (and hence terminate) */
    V_ASSERT(V_IMPLIES(g_n_startup, g_seq_inc < g_seq_startup) && V_IMPLIES(g_n_sched, g_seq_inc < g_seq_sched),
             "C06.add_taskpool.post.counted_before_startup_hook_and_schedule");
    V_ASSERT(V_IMPLIES(g_n_enqueue, g_seq_inc < g_seq_enqueue) && V_IMPLIES(g_n_enter, g_seq_inc < g_seq_enter),
             "C06.add_taskpool.post.counted_before_on_enqueue_and_on_enter_wait");
    /* default detector */
    V_ASSERT(V_IFF(!vin.has_detector, g_n_open == 1) && V_IFF(!vin.has_detector, g_n_monitor == 1) &&
             V_IFF(!vin.has_detector, g_n_ready == 1) && g_n_open <= 1 && g_n_monitor <= 1 && g_n_ready <= 1,
             "C06.add_taskpool.post.default_detector_installed_and_made_ready_iff_none_present");
    V_ASSERT(V_IMPLIES(!vin.has_detector, g_open_local && g_monitor_cb_ok && g_seq_open < g_seq_monitor && g_seq_monitor < g_seq_ready),
             "C06.add_taskpool.post.default_is_local_detector_reporting_to_termination_detected");
    V_ASSERT(tpA.tdm.module == &stub_tdm.module, "C06.add_taskpool.post.detector_present_afterwards");
    /* registration and callbacks */
    V_ASSERT(in_list_once_at_back(&tpA), "C06.add_taskpool.post.registered_once_in_context_list");
    V_ASSERT(tplist.atomic_lock == 0, "C06.add_taskpool.post.list_lock_released");
    V_ASSERT(g_n_enqueue == (vin.has_on_enqueue ? 1 : 0), "C06.add_taskpool.post.on_enqueue_once");
    V_ASSERT(g_n_enter == ((vin.has_on_enter_wait && (flags0 & F_WAITING)) ? 1 : 0), "C06.add_taskpool.post.on_enter_wait_once_iff_context_is_being_waited");
    /* startup */
    V_ASSERT(g_n_startup == (vin.has_startup ? 1 : 0) && V_IMPLIES(g_n_startup, g_startup_args_ok), "C06.add_taskpool.post.startup_hook_once_with_empty_list");
    V_ASSERT(V_IMPLIES(!vin.sched_present, g_n_install == 1) && V_IMPLIES(vin.sched_present, g_n_install == 0) && parsec_current_scheduler == &sched,
             "C06.add_taskpool.post.scheduler_installed_if_missing");
    if (vin.has_startup && vin.startup_makes_task) {
        V_ASSERT((g_n_sched == 1 && g_sched_args_ok && es.next_task == NULL) || (g_n_sched == 0 && es.next_task == &startup_task),
                 "C06.add_taskpool.post.startup_task_handed_to_scheduler_or_kept_as_next_task_exactly_once");
    } else {
        V_ASSERT(g_n_sched == 0 && es.next_task == NULL, "C06.add_taskpool.post.nothing_scheduled_without_startup_task");
    }
#ifdef ZERO_COUNTS
    V_ASSERT(g_n_oc == 0 || (!vin.has_detector && vin.ready_terminates), "C06.add_taskpool.post.no_completion_callback_unless_zero_counts");
#else
    V_ASSERT(g_n_oc == 0, "C06.add_taskpool.post.no_completion_callback");
#endif
    V_CANARY("add");
}

/* ================================================================== parsec_taskpool_termination_detected */
void h_term(void)
{
    vin_load(); build();
    V_ASSUME(vin.unfinished0 >= 1);          /* PRE: tpA was added (counted) and is being reported exactly once (C10) */
    set_counter(vin.token0 & 1);
    tpA.context = &ctx; tpA.tdm.module = &stub_tdm.module; g_rank = PARSEC_TERM_TP_IDLE;
    g_counted = 1; g_mine = 1;
    int32_t flags0 = ctx.flags;

    g_fn = FN_TERM;
    parsec_taskpool_termination_detected(&tpA);
    g_fn = FN_NONE;
    env_act();

    V_ASSERT(g_n_oc == (vin.has_on_complete ? 1 : 0), "C06.termination_detected.post.on_complete_called_exactly_once");
    V_ASSERT(V_IMPLIES(g_n_oc, g_oc_args_ok), "C06.termination_detected.post.on_complete_receives_taskpool_and_its_data");
    V_ASSERT(g_own_dec == 1 && g_own_inc == 0, "C06.termination_detected.post.counter_decremented_exactly_once");
    V_ASSERT(V_IMPLIES(g_n_oc, g_oc_dec_done == 0 && g_seq_oc < g_seq_dec && g_oc_unfinished >= 1),
             "C06.termination_detected.post.on_complete_runs_before_the_decrement_taskpool_still_counted");
    V_ASSERT(!g_counted && g_mine == 0, "C06.termination_detected.post.taskpool_no_longer_counted");
    V_ASSERT(INV(), "C06.termination_detected.post.inv");
    V_ASSERT(g_n_pins_fini == 1 && g_seq_dec < g_seq_pins_fini, "C06.termination_detected.post.pins_fini_once_after");
    V_ASSERT(ctx.flags == flags0 && tpA.context == &ctx, "C06.termination_detected.post.flags_and_context_unchanged");
    V_CANARY("term");
}

/* ================================================================== parsec_context_start */
void h_start(void)
{
    vin_load(); build();
    set_counter((vin.flags0 & F_ACTIVE) ? 1 : 0);        /* Inv2 */
    int32_t flags0 = ctx.flags;
    int idle = !(flags0 & F_ACTIVE) && !(flags0 & F_COMM);

    g_fn = FN_START;
    int rc = parsec_context_start(&ctx);
    g_fn = FN_NONE;
    env_act();

    V_ASSERT(V_IFF(rc == 0, idle), "C06.context_start.post.returns_0_iff_context_was_idle");
    if (rc == 0) {
        V_ASSERT(g_own_inc == 1 && g_own_dec == 0 && g_token == 1, "C06.context_start.post.returns_0_token_taken_exactly_once");
        V_ASSERT(ctx.flags == (flags0 | F_ACTIVE | F_COMM), "C06.context_start.post.returns_0_ACTIVE_and_COMM_ACTIVE_set_nothing_else");
        V_ASSERT(g_n_barrier == 1 && (g_barrier_flags & F_ACTIVE), "C06.context_start.post.returns_0_workers_released_once_after_ACTIVE_set");
        V_ASSERT(g_n_dep_on == 1, "C06.context_start.post.returns_0_comm_engine_switched_on_once");
        V_ASSERT(PRE_STARTED(), "C06.context_start.post.returns_0_establishes_precondition_of_wait");
    } else {
        V_ASSERT(g_own_inc == 0 && g_own_dec == 0 && g_token == ((flags0 & F_ACTIVE) ? 1 : 0), "C06.context_start.post.returns_nonzero_counter_untouched");
        V_ASSERT(ctx.flags == flags0 && g_n_barrier == 0 && g_n_dep_on == 0, "C06.context_start.post.returns_nonzero_nothing_changed");
        V_ASSERT(rc == 1, "C06.context_start.post.returns_1_when_already_active");
    }
    V_ASSERT(INV(), "C06.context_start.post.inv");
    V_ASSERT(ctx.__parsec_internal_finalization_counter == vin.fin_counter0, "C06.context_start.post.epoch_counter_unchanged");
    V_CANARY("start");
}

/* ================================================================== parsec_context_wait */
static void check_wait_epoch(int rc, int32_t flags0, int32_t fin0, int barrier0, int dec0, int inc0, int off0)
{
    V_ASSERT(rc == PARSEC_SUCCESS, "C06.context_wait.post.started_context_returns_success");
    V_ASSERT(g_own_dec == dec0 + 1 && g_own_inc == inc0 && g_token == 0, "C06.context_wait.post.token_dropped_exactly_once");
    /* the heart of the property */
    V_ASSERT(g_n_barrier == barrier0 + 1 && g_barrier_active == 0 && g_barrier_unfinished == 0,
             "C06.context_wait.post.leaves_the_wait_loop_only_after_observing_active_taskpools_zero");
    V_ASSERT(g_unfinished == 0, "C06.context_wait.post.returns_only_after_every_added_taskpool_terminated");
    V_ASSERT(ctx.active_taskpools == 0 && INV(), "C06.context_wait.post.counter_zero_and_inv");
    /* epoch invariance */
    V_ASSERT(ctx.flags == (flags0 & ~(F_ACTIVE | F_COMM | F_WAITING)), "C06.context_wait.post.ACTIVE_COMM_WAITING_cleared_other_flags_kept");
    V_ASSERT(PRE_IDLE(), "C06.context_wait.post.establishes_precondition_of_next_start_epoch_invariance");
    V_ASSERT(ctx.__parsec_internal_finalization_counter == fin0 + 1, "C06.context_wait.post.epoch_counter_incremented_once");
    V_ASSERT(g_n_dep_off == off0 + 1, "C06.context_wait.post.comm_engine_switched_off_once");
    V_ASSERT(tplist.atomic_lock == 0, "C06.context_wait.post.list_lock_released");
}

void h_wait(void)
{
    vin_load(); build();
    set_counter((vin.flags0 & F_ACTIVE) ? 1 : 0);        /* Inv2 */
    parsec_current_scheduler = &sched; scheduler_component = &sched_comp;   /* PRE: a scheduler is installed (NULL ends in parsec_fatal) */
    int32_t flags0 = ctx.flags;

    g_fn = FN_WAIT;
    int rc = parsec_context_wait(&ctx);
    g_fn = FN_NONE;
    env_act();

    if (!(flags0 & F_ACTIVE)) {
        V_ASSERT(rc == PARSEC_ERR_NOT_SUPPORTED, "C06.context_wait.post.non_started_context_rejected");
        V_ASSERT(g_own_dec == 0 && g_own_inc == 0 && ctx.flags == flags0 && g_n_barrier == 0 && g_n_select == 0 &&
                 ctx.__parsec_internal_finalization_counter == vin.fin_counter0 && g_n_dep_on == 0 && g_n_dep_off == 0,
                 "C06.context_wait.post.non_started_context_nothing_changed");
    } else {
        check_wait_epoch(rc, flags0, vin.fin_counter0, 0, 0, 0, 0);
        V_ASSERT(g_n_dep_on == ((flags0 & F_COMM) ? 0 : 1), "C06.context_wait.post.comm_engine_switched_on_iff_it_was_off");
        for (int i = 0; i < NL; i++) {
            V_ASSERT(g_lst_enter[i] == (vin.lst_enter[i] ? 1 : 0) && g_lst_leave[i] == (vin.lst_leave[i] ? 1 : 0),
                     "C06.context_wait.post.on_enter_wait_and_on_leave_wait_of_each_registered_taskpool_once");
            V_ASSERT(V_IMPLIES(g_lst_enter[i], g_lst_enter_seq[i] < g_seq_barrier && g_seq_dec < g_lst_enter_seq[i]) &&
                     V_IMPLIES(g_lst_leave[i], g_seq_barrier < g_lst_leave_seq[i]),
                     "C06.context_wait.post.on_enter_wait_before_and_on_leave_wait_after_the_zero_was_observed");
        }
    }
    V_ASSERT(INV(), "C06.context_wait.post.inv");
    V_CANARY("wait");
}

/* ================================================================== parsec_taskpool_wait / __parsec_taskpool_wait */
void h_tpwait(void)
{
    vin_load(); build();
    set_counter((vin.flags0 & F_ACTIVE) ? 1 : 0);
    parsec_current_scheduler = &sched; scheduler_component = &sched_comp;   /* PRE: a scheduler is installed */
    V_ASSUME(vin.rank0 >= PARSEC_TERM_TP_NOT_READY && vin.rank0 <= PARSEC_TERM_TP_TERMINATED);
    tpA.context = vin.ctx_null ? NULL : &ctx;
    tpA.tdm.module = &stub_tdm.module; g_rank = vin.rank0;
    g_counted = 1;
    int32_t flags0 = ctx.flags;
    int32_t active0 = ctx.active_taskpools;

    g_fn = FN_TPWAIT;
    int rc = parsec_taskpool_wait(&tpA);
    g_fn = FN_NONE;
    env_act();

    if (vin.ctx_null || !(flags0 & F_ACTIVE)) {
        V_ASSERT(rc == -1, "C06.taskpool_wait.post.unregistered_or_non_started_rejected");
        V_ASSERT(g_n_state == 0 && g_n_enter == 0 && g_n_leave == 0 && g_n_select == 0 && ctx.flags == flags0,
                 "C06.taskpool_wait.post.rejected_nothing_changed");
    } else {
        V_ASSERT(rc >= 0, "C06.taskpool_wait.post.returns_number_of_tasks_run");
        V_ASSERT(g_n_state >= 1 && g_last_state == PARSEC_TERM_TP_TERMINATED && g_rank == PARSEC_TERM_TP_TERMINATED,
                 "C06.taskpool_wait.post.returns_only_after_observing_state_TERMINATED");
        V_ASSERT(g_n_enter == (vin.has_on_enter_wait ? 1 : 0) && V_IMPLIES(g_n_enter, g_seq_enter < g_seq_state_first),
                 "C06.taskpool_wait.post.on_enter_wait_once_before_the_first_state_query");
        V_ASSERT(g_n_leave == (vin.has_on_leave_wait ? 1 : 0) && V_IMPLIES(g_n_leave, g_seq_state_last < g_seq_leave),
                 "C06.taskpool_wait.post.on_leave_wait_once_after_TERMINATED_was_observed");
        V_ASSERT(ctx.flags == (flags0 | F_COMM) && g_n_dep_on == ((flags0 & F_COMM) ? 0 : 1),
                 "C06.taskpool_wait.post.only_COMM_ACTIVE_may_be_added_to_flags");
    }
    V_ASSERT(g_own_inc == 0 && g_own_dec == 0 && g_n_barrier == 0 && INV(), "C06.taskpool_wait.post.context_accounting_untouched");
    (void)active0;
    V_CANARY("tpwait");
}

/* ================================================================== parsec_context_test */
void h_test(void)
{
    vin_load(); build();
    set_counter(vin.token0 & 1);
    int32_t flags0 = ctx.flags;
    g_frozen = 1;                       /* no atomic operation inside: the answer is about the state at the call */
    g_fn = FN_TEST;
    int rc = parsec_context_test(&ctx);
    g_fn = FN_NONE;
    env_act();
    V_ASSERT(V_IFF(rc != 0, g_unfinished == 0 && g_token == 0), "C06.context_test.post.true_iff_no_unfinished_taskpool_and_no_token");
    V_ASSERT(rc == 0 || rc == 1, "C06.context_test.post.boolean");
    V_ASSERT(ctx.flags == flags0 && INV() && g_own_inc == 0 && g_own_dec == 0, "C06.context_test.post.no_side_effect");
    V_CANARY("test");
}

/* ================================================================== lemmas */
void h_lemma(void)
{
    vin_load();
    /* Inv and an observed zero give "every added taskpool terminated and the token is dropped" */
    int32_t u = vin.unfinished0, t = vin.token0, a = vin.flags0;
    V_ASSUME(u >= 0 && u <= UMAX && (t == 0 || t == 1) && a == u + t);
    V_ASSERT(V_IMPLIES(a == 0, u == 0 && t == 0), "C06.lemma.zero_counter_and_inv_imply_no_unfinished_taskpool");
    V_ASSERT(V_IMPLIES(t == 1, a >= 1), "C06.lemma.token_held_implies_counter_positive_wait_cannot_be_left");
    /* stability: from (no unfinished taskpool) the environment cannot move (no task, no callback is running) */
    build();
    g_unfinished = 0; set_counter(t);
    g_rank = PARSEC_TERM_TP_NOT_READY;
    env_act(); env_act();
    V_ASSERT(g_unfinished == 0 && ctx.active_taskpools == t, "C06.lemma.rely_zero_unfinished_is_stable_under_the_environment");
    V_CANARY("lemma");
}

/* ================================================================== composition: NEPOCH start / add / wait epochs */
void h_epochs(void)
{
    vin_load(); build();
    parsec_current_scheduler = &sched; scheduler_component = &sched_comp;
    tpA.startup_hook = NULL;       /* running the startup tasks is the scheduler's and C16's business */
    V_ASSUME((vin.flags0 & (F_ACTIVE | F_COMM | F_WAITING)) == 0);
    g_unfinished = 0; set_counter(0);
    V_ASSUME(PRE_IDLE());
    for (int e = 0; e < NEPOCH; e++) {
        int32_t flags0 = ctx.flags, fin0 = ctx.__parsec_internal_finalization_counter;
        int b0 = g_n_barrier, d0 = g_own_dec, i0 = g_own_inc, off0 = g_n_dep_off;
        g_fn = FN_START;
        int rc = parsec_context_start(&ctx);
        V_ASSERT(rc == 0 && PRE_STARTED(), "C06.epochs.inv.start_of_an_idle_context_succeeds_in_every_epoch");
        /* the user adds a taskpool */
        tpA.tdm.module = &stub_tdm.module; g_counted = 0; g_rank = PARSEC_TERM_TP_NOT_READY;
        tpA.super.list_next = &tpA.super; tpA.super.list_prev = &tpA.super;
        g_fn = FN_ADD;
        rc = parsec_context_add_taskpool(&ctx, &tpA);
        V_ASSERT(rc == PARSEC_SUCCESS && g_own_inc == i0 + 2 && INV(), "C06.epochs.inv.added_taskpool_is_counted");
        g_n_select = 0;
        g_fn = FN_WAIT;
        rc = parsec_context_wait(&ctx);
        g_fn = FN_NONE;
        env_act();
        check_wait_epoch(rc, flags0 | F_ACTIVE | F_COMM, fin0, b0 + 1, d0, i0 + 2, off0);
        /* un-register (parsec_taskpool_free does it) so that the same object can be added in the next epoch */
        parsec_context_remove_taskpool(&tpA);
    }
    V_CANARY("epochs");
}
