from vlib import Job

H = "h_wait.c"

META = dict(
    level="other",
    functions=["parsec_context_add_taskpool", "parsec_taskpool_termination_detected", "parsec_context_start",
               "parsec_context_wait", "__parsec_context_wait", "parsec_context_enter_wait", "parsec_context_leave_wait",
               "all_tasks_done", "parsec_taskpool_wait", "__parsec_taskpool_wait", "parsec_context_test",
               "__parsec_context_cas_or_flag"],
    explanation="Accounting part of C06 on the real parsec/scheduling.c (included verbatim; harness route with the rely/guarantee "
                "hooks of verif_rg.h, environment acting before and after every atomic operation and inside every stub that lets "
                "time pass).  Ghost: g_unfinished (taskpools added and not yet termination-detected), g_token (reference taken by "
                "parsec_context_start, dropped by parsec_context_wait); Inv: active_taskpools == g_unfinished + g_token.  "
                "Guarantee checked at every own atomic step on active_taskpools: it is a +1/-1 justified by a ghost transition "
                "(count a taskpool once / un-count a COUNTED taskpool / take / drop the token), Inv holds afterwards, and the word is "
                "never written otherwise.  Contracts: add_taskpool counts the taskpool exactly once and before on_enqueue, "
                "on_enter_wait, the startup hook and __parsec_schedule_vp; installs the local detector (reporting to "
                "parsec_taskpool_termination_detected) and declares it ready iff none is present; registers the taskpool once.  "
                "termination_detected calls on_complete exactly once, with the taskpool still counted, then decrements exactly once.  "
                "start returns 0 iff the context was idle, then ACTIVE|COMM_ACTIVE are set, the workers' barrier is passed once and "
                "the token is taken; otherwise nothing changes.  parsec_context_wait rejects a non-started context without touching "
                "anything; otherwise drops the token once, reaches the end-of-epoch barrier (the first action after the "
                "while(!all_tasks_done) loop, no shared access in between) only with active_taskpools == 0 and returns only with "
                "g_unfinished == 0; ACTIVE, COMM_ACTIVE, WAITING are cleared, the epoch counter advances by one, and the post-state "
                "satisfies the precondition of the next parsec_context_start (epoch invariance as an inductive step; job epochs "
                "composes start/add/wait epochs on the real code).  parsec_taskpool_wait rejects unregistered / non-started, else "
                "returns only after the detector answered TERMINATED as its last answer, on_enter_wait before the first and "
                "on_leave_wait after the last query, context accounting untouched.  parsec_context_test is true iff no unfinished "
                "taskpool and no token.  Lemmas: Inv and an observed zero give g_unfinished == 0; a zero is stable under the rely.  "
                "The lemma 'observed zero => no unfinished taskpool' has the precondition that no parsec_context_add_taskpool of a "
                "detector-less taskpool with zero counts is in flight (see the observation below).  "
                "OBSERVATION (job add.default_detector_zero_counts, native_demo/transient_counter.c): during "
                "parsec_context_add_taskpool of a detector-less taskpool with zero counts the counter is transiently one below "
                "unfinished+token (decrement inside taskpool_ready before the increment); a concurrent parsec_context_test may read 0 "
                "in that window; wait is protected by the barrier (worker side, not under contract).  For that path the job requires: "
                "on_complete exactly once (before the decrement), the dip is exactly one, net change of the counter over the call is 0 "
                "(one decrement, then one increment), Inv holds again when add_taskpool returns, the counter is written only by atomic "
                "operations; the per-step invariant is not required inside that one call and is required everywhere else.",
    trusted_base=[
        "rely/guarantee soundness theorem; the rely stated in h_wait.c (adds only from running tasks / completion callbacks, i.e. "
        "while g_unfinished > 0; each add/termination by another thread follows the contracts proved in jobs add / termination_detected)",
        "stub scheduler module (select: environment step, returns no task; schedule/install/remove: recorded) - tasks the waiting "
        "thread would run itself have the effect of an environment step (mechanics of __parsec_task_progress: C16)",
        "stub termination detector module (monitor_taskpool, taskpool_ready, taskpool_state with a monotone ghost state: C10) "
        "and parsec_termdet_open_module",
        "stub parsec_barrier_wait / pthread_barrier_wait (records the counter it is reached with, environment step), nanosleep, "
        "rand_r (returns 0: the back-off time computed by the real backoff.h is irrelevant)",
        "stub communication engine: parsec_ce.enable, remote_dep_dequeue_on/off/nothread_progress (at most 2 successful "
        "progress calls), remote_dep_ce_reconfigure, parsec_remote_dep_reconfigure",
        "stub MCA repository (mca_components_open_bytype/query/close: yields the stub scheduler), PINS entry points (no-ops), "
        "parsec_output, parsec_output_verbose, getpid, *parsec_weaksym_exit (parsec_fatal ends the path)",
        "taskpool callbacks on_enqueue / on_enter_wait / on_leave_wait / on_complete / startup_hook are recording stubs "
        "(on_complete may add a taskpool through the contract of add_taskpool).  The real DTD on_leave_wait "
        "(parsec_dtd_taskpool_leave_wait) re-arms the detector AND re-increments active_taskpools (the DTD taskpool is attached "
        "again): for a context holding DTD taskpools the clauses 'counter is zero when parsec_context_wait returns' and "
        "'precondition of the next start' hold only up to these re-attached taskpools; not modelled",
    ],
    assumptions=[
        "one user thread drives start / add / wait / test of a context; the flags word, the token and the epoch counter are not "
        "touched by other threads",
        "between the calls of the user thread: token held <=> CONTEXT_ACTIVE set (established by parsec_context_start; NOT "
        "preserved by parsec_execute_and_come_back of insert_function.c, which sets CONTEXT_ACTIVE without taking the token "
        "when DTD tasks are inserted into a non-started context - outside this check)",
        "each taskpool's termination is reported exactly once and only when its counts are zero (C10; known finding "
        "C10-ready-race), and only after it was handed to parsec_context_add_taskpool",
        "fewer than 2^30 unfinished taskpools (no wrap of the int32 counter)",
        "OBSERVATION, not assumed away but outside the per-step invariant: during parsec_context_add_taskpool of a detector-less "
        "taskpool with zero counts the counter is transiently one below unfinished+token (decrement inside taskpool_ready before the "
        "increment); a concurrent parsec_context_test may read 0 in that window; wait is protected by the barrier (worker side, not "
        "under contract).  The rely of the other jobs (environment preserves Inv) and the lemma 'observed zero => none unfinished' "
        "therefore hold under the precondition that no such add_taskpool is in flight in another thread",
        "a scheduler is installed when wait / taskpool_wait run (else parsec_fatal); context not being finalised",
        "taskpools added while the context is idle or by other user threads during a wait are not covered by 'wait returns "
        "after them' (inherently racy)",
    ],
)


def jobs(tier):
    full = tier == "thorough"
    K = 8 if full else 3
    NLv = 3 if full else 2
    NE = 3 if full else 2
    loopb = ("at most %d rounds of the wait loop before the environment has finished the work (the rely is reflexive and "
             "transitive: a longer run reaches no new state at the loop head; liveness is not claimed); %d taskpools registered "
             "in the context list; at most 2 successful communication-progress calls" % (K, NLv))
    D = {"KLOOP": K, "NL": NLv}
    U = max(K + 2, NLv + 3)
    J = [
        Job("add", H, entry="h_add", unwind=NLv + 3, defines={"NL": NLv}, functions=["parsec_context_add_taskpool"], timeout=600,
            min_obligations=20, bounded="%d taskpools already registered in the context list; one virtual process" % NLv),
        # default-detector path with zero counts: the taskpool terminates inside add_taskpool (observation in META)
        Job("add.default_detector_zero_counts", H, entry="h_add", unwind=NLv + 3, defines={"NL": NLv, "ZERO_COUNTS": 1},
            functions=["parsec_context_add_taskpool", "parsec_taskpool_termination_detected"], timeout=600, min_obligations=20,
            bounded="%d taskpools already registered in the context list; one virtual process" % NLv),
        Job("termination_detected", H, entry="h_term", unwind=NLv + 3, defines={"NL": NLv},
            functions=["parsec_taskpool_termination_detected"], timeout=600, min_obligations=8),
        Job("start", H, entry="h_start", unwind=NLv + 3, defines={"NL": NLv}, functions=["parsec_context_start", "__parsec_context_cas_or_flag"],
            timeout=600, min_obligations=10),
        Job("wait", H, entry="h_wait", unwind=U, defines=D,
            functions=["parsec_context_wait", "__parsec_context_wait", "parsec_context_enter_wait", "parsec_context_leave_wait", "all_tasks_done"],
            timeout=900, min_obligations=14, bounded=loopb),
        Job("taskpool_wait", H, entry="h_tpwait", unwind=U, defines=D, functions=["parsec_taskpool_wait", "__parsec_taskpool_wait"],
            timeout=900, min_obligations=8, bounded=loopb),
        Job("test", H, entry="h_test", unwind=NLv + 3, defines={"NL": NLv}, functions=["parsec_context_test", "all_tasks_done"],
            timeout=300, min_obligations=3),
        Job("lemma", H, entry="h_lemma", unwind=NLv + 3, defines={"NL": NLv}, functions=[], timeout=300, min_obligations=3),
        Job("epochs", H, entry="h_epochs", unwind=U, defines={"KLOOP": K, "NL": NLv, "NEPOCH": NE, "NENV": 120 * NE},
            functions=["parsec_context_start", "parsec_context_add_taskpool", "parsec_context_wait", "parsec_context_remove_taskpool"],
            timeout=1500, min_obligations=12,
            bounded="%d consecutive start / add_taskpool / wait epochs on one context (illustration of the inductive step proved "
                    "by jobs start and wait); %s" % (NE, loopb)),
    ]
    return J


MANIFEST = dict(
    category="other",
    text="Accounting invariant active_taskpools == (taskpools added and not yet termination-detected) + (start token) established "
         "by CBMC on the real scheduling.c as a rely/guarantee invariant: every atomic step of parsec_context_add_taskpool, "
         "parsec_taskpool_termination_detected, parsec_context_start and parsec_context_wait on the counter is a justified +1/-1 "
         "and the counter is written in no other way; add_taskpool counts before on_enqueue / startup hook / scheduling; "
         "termination_detected runs on_complete exactly once before its single decrement; start takes the token iff the context "
         "was idle; parsec_context_wait leaves its wait loop only with the counter at zero, returns only when every added taskpool "
         "has been termination-detected, and restores flags and token so that the next epoch starts from the same precondition "
         "(inductive step for 'any number of epochs'); parsec_taskpool_wait returns only after the detector answered TERMINATED; "
         "parsec_context_test is exact.  Not a proof of the property: workers, liveness, the detector and DTD hooks are outside, "
         "wait loops are explored for a bounded number of rounds.",
    note="NOT decided: the worker threads' side of the barrier protocol; liveness (that the zero is eventually observed); that a "
         "termination-detected taskpool has really run all its tasks (C10, C15) and DTD's on_enter_wait/on_leave_wait re-arming "
         "(recording stubs); tasks executed by the waiting thread itself (select stub returns none); parsec_taskpool_test; "
         "finalisation path of __parsec_context_wait; DTD's parsec_execute_and_come_back setting CONTEXT_ACTIVE without a token.  "
         "Wait loops bounded to 3 (quick) / 8 (thorough) rounds, list of registered taskpools to 2 / 3, epochs to 2 / 3.  "
         "OBSERVATION: during parsec_context_add_taskpool of a detector-less taskpool with zero counts the counter is transiently "
         "one below unfinished+token (decrement inside taskpool_ready before the increment); a concurrent parsec_context_test may "
         "read 0 in that window; wait is protected by the barrier (worker side, not under contract).  Consequently the lemma "
         "'observed zero => none unfinished' and the per-step invariant relied upon by the other jobs carry the precondition that "
         "no add_taskpool of such a taskpool is in flight; for that one path the check requires on_complete exactly once, net "
         "counter change 0, Inv restored at return, atomic writes only (job add.default_detector_zero_counts).",
    technique="pre/post contracts + rely/guarantee ghost accounting on the real scheduling.c (harness route, verif_rg.h hooks with "
              "post-steps), recording stubs for scheduler / detector / barrier / comm engine, CBMC 6.11 (MiniSat), bounded unwinding "
              "of the wait loops with unwinding assertions",
    design_ref="DESIGN.md section 5, C06")
