/* C36: contracts on the real red-black tree (parsec/class/parsec_rbtree.c, included verbatim).
 *
 * Route: harness (V_ASSUME pre / real call / V_ASSERT post), `--paths lifo`.
 *
 * Pre-state of the one-step contracts = ANY well-formed tree with exactly NFIX nodes (one cbmc process per
 * NFIX): the shape is produced by the inductive definition of red-black trees (build(): at every position
 * whose parent is not red the colour is a symbolic choice; a black node consumes one unit of black height),
 * so every branch of symbolic execution carries CONCRETE pointers, while all keys stay fully symbolic 32-bit
 * ints constrained only by the (non-strict) search-tree order.  Nodes are numbered by in-order rank.
 *
 * wf (checked on every post-state by observe(), independent of the generator, flat, with witness arrays
 * depth / black height / subtree min / subtree max computed by bounded relaxation and THEN checked):
 *   shape   : the nodes reachable from root form a binary tree inside the pool, no sharing / cycle,
 *             child->parent == node, root->parent == nil
 *   order   : every key of the left subtree <= key(node) <= every key of the right subtree
 *   colours : root black, nil sentinel black, no red node has a red child,
 *             every root-to-nil path holds the same number of black nodes
 * View      : set of reachable nodes + their keys (for trees with distinct keys: the finite map key -> node
 *             used by the abstract contract of C28).
 * Junk      : the sentinel's parent / left / right fields (remove writes nil->parent) and every field of a node outside
 *             the tree are symbolic in the pre-state; -DNIL_JUNK_CONCRETE is a concrete sub-case kept as its own job.
 * Everything in the specification code is written branch-free on symbolic data ('&', '|', '?:'), because with
 * --paths lifo every symbolic branch doubles the number of paths.
 */
#include "verif.h"
#include <stddef.h>
#include "parsec/parsec_config.h"
#ifdef WITH_OBJECT_SYSTEM
#include "parsec/class/parsec_object.c"
#include "parsec/class/parsec_list.c"
#endif
#include "parsec/class/parsec_rbtree.c"

/* the memory-safety checks (--pointer-check --bounds-check) are obligations of the REAL code above; the
 * specification code below only reads the static pool through constant indices */
#ifndef VERIF_REPLAY
#pragma CPROVER check push
#pragma CPROVER check disable "pointer"
#pragma CPROVER check disable "bounds"
#endif

#ifndef NMAX
#define NMAX 7                 /* largest pre-state size of this process */
#endif
#ifndef NFIX
#define NFIX NMAX              /* number of nodes of the pre-state tree */
#endif
#define NP (NMAX + 1)          /* pool: pre-state nodes + one node to insert */
#define NIL NP                 /* index standing for the sentinel */
#define BAD (-1)
#ifndef KOPS
#define KOPS 4
#endif

/* a user node as zone_malloc builds it: the tree node first, the int key at comp_offset */
struct tnode { parsec_rbtree_node_t super; int other; int key; };
/* one static object per node (a write through COMPARISON_VAL's integer-cast pointer then touches one small
 * object instead of a whole pool array) */
static struct tnode n00, n01, n02, n03, n04, n05, n06, n07, n08, n09, n10, n11, n12, n13, n14, n15;
static struct tnode *const pool_[16] = { &n00, &n01, &n02, &n03, &n04, &n05, &n06, &n07, &n08, &n09, &n10, &n11, &n12, &n13, &n14, &n15 };
static parsec_rbtree_t T;
#define KOFF   offsetof(struct tnode, key)
#define NODE(i) (&pool_[i]->super)
#define KEY(i)  (pool_[i]->key)

struct vin {
    uint8_t bh;                /* black height of the pre-state                                  */
    uint8_t red[2 * NP + 3];   /* colour choice at each position where red is allowed (pre-order) */
    int     key[NP];           /* keys of the pre-state by in-order rank                          */
    int     q;                 /* query / inserted / new key                                      */
    uint8_t z;                 /* node operated on                                                */
    uint8_t nilpar, nill, nilr;/* junk held by the sentinel's link fields                         */
    int     zcol;              /* junk colour of the node to insert                               */
    /* history from the empty tree */
    uint8_t op[KOPS]; uint8_t hz[KOPS]; int hk[KOPS];
} vin;
#include "verif_vin.h"

/* ------------------------------------------------------------------------------------------ */
/* observation of a state: index arrays + wf verdicts                                         */
/* ------------------------------------------------------------------------------------------ */
struct view {
    int root, nilpar;
    int L[NP], R[NP], P[NP], col[NP], key[NP];
    int used[NP], n;
    int depth[NP], bhv[NP], lo[NP], hi[NP];
    int ok_hdr, ok_shape, ok_order, ok_rootblack, ok_nilblack, ok_redred, ok_bh, ok_col;
};

/* pointer -> index, by comparison with the known addresses only; branch-free so that a junk (symbolic)
 * pointer value does not split the path */
static int idx(const parsec_rbtree_node_t *p)
{
    int r = (p == &T.nil_element) ? NIL : BAD;
    for (int i = 0; i < NP; i++) r = (p == NODE(i)) ? i : r;
    return r;
}

static void observe(struct view *v)
{
    v->ok_hdr = (T.nil == &T.nil_element) & (T.comp_offset == KOFF);
    v->ok_nilblack = (T.nil_element.color == PARSEC_RBTREE_BLACK);
    v->root = idx(T.root);
    v->nilpar = idx(T.nil_element.parent);
    for (int i = 0; i < NP; i++) {
        v->L[i] = idx(LEFT(NODE(i))); v->R[i] = idx(RIGHT(NODE(i))); v->P[i] = idx(NODE(i)->parent);
        v->col[i] = (int)NODE(i)->color; v->key[i] = KEY(i);
        v->used[i] = 0; v->depth[i] = -1; v->bhv[i] = 0; v->lo[i] = 0; v->hi[i] = 0;
    }
    v->n = 0;
    v->ok_shape = 1; v->ok_order = 1; v->ok_rootblack = 1; v->ok_redred = 1; v->ok_bh = 1; v->ok_col = 1;
    if (v->root == BAD) v->ok_shape = 0;
    else if (v->root != NIL) {
        v->used[v->root] = 1; v->depth[v->root] = 0; v->n = 1;
        if (v->P[v->root] != NIL) v->ok_shape = 0;
        v->ok_rootblack = (v->col[v->root] == PARSEC_RBTREE_BLACK);
    }
    /* top-down: discover the reachable nodes in breadth-first order; a node met twice = sharing or a cycle */
    int queue[NP], qn = 0;
    for (int i = 0; i < NP; i++) queue[i] = BAD;
    if (v->root != BAD && v->root != NIL) queue[qn++] = v->root;
    for (int qi = 0; qi < NP; qi++) {
        if (qi >= qn) break;
        int i = queue[qi];
        for (int s = 0; s < 2; s++) {
            int c = s ? v->R[i] : v->L[i];
            if (c == BAD) v->ok_shape = 0;
            else if (c != NIL) {
                if (v->used[c]) v->ok_shape = 0;
                else {
                    v->used[c] = 1; v->depth[c] = v->depth[i] + 1; v->n++;
                    if (qn < NP) queue[qn++] = c;
                    if (v->P[c] != i) v->ok_shape = 0;
                }
            }
        }
    }
    /* bottom-up (reverse breadth-first order: children before parents): witnesses black height / subtree min /
     * subtree max, checked as they are built (branch-free on the symbolic keys) */
    for (int qi = NP - 1; qi >= 0; qi--) {
        if (qi >= qn) continue;
        int i = queue[qi];
        int l = v->L[i], r = v->R[i];
        int hasl = (l != NIL && l != BAD), hasr = (r != NIL && r != BAD);
        int bl = hasl ? v->bhv[l] : 0, br = hasr ? v->bhv[r] : 0;
        if (bl != br) v->ok_bh = 0;
        if (v->col[i] != PARSEC_RBTREE_BLACK && v->col[i] != PARSEC_RBTREE_RED) v->ok_col = 0;
        v->bhv[i] = bl + (v->col[i] == PARSEC_RBTREE_BLACK);
        v->lo[i] = hasl ? v->lo[l] : v->key[i];
        v->hi[i] = hasr ? v->hi[r] : v->key[i];
        if (hasl) v->ok_order = v->ok_order & (v->hi[l] <= v->key[i]);
        if (hasr) v->ok_order = v->ok_order & (v->lo[r] >= v->key[i]);
        if (v->col[i] == PARSEC_RBTREE_RED &&
            ((hasl && v->col[l] == PARSEC_RBTREE_RED) || (hasr && v->col[r] == PARSEC_RBTREE_RED)))
            v->ok_redred = 0;
    }
}
#define WF(v) ((v).ok_hdr & (v).ok_shape & (v).ok_order & (v).ok_rootblack & (v).ok_nilblack & (v).ok_redred & (v).ok_bh & (v).ok_col)

/* the wf clauses as named obligations; F = function under contract */
#define ASSERT_WF(v, F) do { \
    V_ASSERT((v).ok_hdr,       "C36." F ".post.wf.header_nil_and_offset_kept"); \
    V_ASSERT((v).ok_shape,     "C36." F ".post.wf.binary_tree_with_consistent_parent_pointers"); \
    V_ASSERT((v).ok_order,     "C36." F ".post.wf.search_tree_order"); \
    V_ASSERT((v).ok_rootblack, "C36." F ".post.wf.root_black"); \
    V_ASSERT((v).ok_nilblack,  "C36." F ".post.wf.nil_sentinel_black"); \
    V_ASSERT((v).ok_col,       "C36." F ".post.wf.every_node_red_or_black"); \
    V_ASSERT((v).ok_redred,    "C36." F ".post.wf.no_red_node_has_red_child"); \
    V_ASSERT((v).ok_bh,        "C36." F ".post.wf.equal_black_height_on_all_paths"); \
  } while (0)

/* two observations describe the same concrete state (frame of the queries / of update_node == EXISTS) */
static int same_state(const struct view *a, const struct view *b)
{
    int ok = (a->root == b->root) & (a->nilpar == b->nilpar) & (a->ok_hdr == b->ok_hdr) & (a->ok_nilblack == b->ok_nilblack);
    for (int i = 0; i < NP; i++)
        ok = ok & (a->L[i] == b->L[i]) & (a->R[i] == b->R[i]) & (a->P[i] == b->P[i]) & (a->col[i] == b->col[i]) & (a->key[i] == b->key[i]);
    return ok;
}
/* keys of all pool nodes equal, except node `ex` (BAD: none) */
static int same_keys_except(const struct view *a, const struct view *b, int ex)
{
    int ok = 1;
    for (int i = 0; i < NP; i++) if (i != ex) ok = ok & (a->key[i] == b->key[i]);
    return ok;
}
/* set of reachable nodes of b == set of a, plus node `add`, minus node `del` (BAD: none) */
static int same_nodes_except(const struct view *a, const struct view *b, int add, int del)
{
    int ok = 1;
    for (int i = 0; i < NP; i++) {
        int want = a->used[i];
        if (i == add) want = 1;
        if (i == del) want = 0;
        if (b->used[i] != want) ok = 0;
    }
    return ok;
}
/* does a reachable node other than `ex` hold key k? / a key >= k?   (branch-free on keys; plain disjunctions --
 * counting with 32-bit adders made the SAT queries needlessly hard) */
static int any_key(const struct view *v, int k, int ex)
{
    int c = 0;
    for (int i = 0; i < NP; i++) if (v->used[i] && i != ex) c = c | (v->key[i] == k);
    return c;
}
static int any_ge(const struct view *v, int k)
{
    int c = 0;
    for (int i = 0; i < NP; i++) if (v->used[i]) c = c | (v->key[i] >= k);
    return c;
}
static int distinct_keys(const struct view *v)
{
    int ok = 1;
    for (int i = 0; i < NP; i++) for (int j = i + 1; j < NP; j++)
        if (v->used[i] && v->used[j]) ok = ok & (v->key[i] != v->key[j]);
    return ok;
}

/* ------------------------------------------------------------------------------------------ */
/* generator of the pre-states: the inductive definition of red-black trees                    */
/* ------------------------------------------------------------------------------------------ */
static int g_alloc, g_pos;

static parsec_rbtree_node_t *build(int bh, int parent_red)
{
    int red = 0;
    /* a subtree of black height bh has at least 2^bh - 1 nodes: cut hopeless branches early */
    if (g_alloc + (1 << bh) - 1 > NFIX) { V_ASSUME(0); return &T.nil_element; }
    if (!parent_red) {
        if (g_pos >= 2 * NP + 3) { V_ASSUME(0); return &T.nil_element; }
        if (vin.red[g_pos]) red = 1;         /* symbolic choice: one path per colour */
        g_pos++;
    }
    if (!red && bh == 0) return &T.nil_element;
    int cbh = red ? bh : bh - 1;
    parsec_rbtree_node_t *l = build(cbh, red);
    if (g_alloc >= NFIX) { V_ASSUME(0); return &T.nil_element; }
    int me = g_alloc++;                       /* in-order rank = pool index */
    parsec_rbtree_node_t *r = build(cbh, red);
    parsec_rbtree_node_t *n = NODE(me);
    n->color = red ? PARSEC_RBTREE_RED : PARSEC_RBTREE_BLACK;
    LEFT(n) = l; RIGHT(n) = r;
    if (l != &T.nil_element) l->parent = n;
    if (r != &T.nil_element) r->parent = n;
    KEY(me) = vin.key[me];
    return n;
}

/* a tree of black height b has >= 2^b - 1 nodes */
#define BHMAX (NFIX >= 31 ? 5 : NFIX >= 15 ? 4 : NFIX >= 7 ? 3 : NFIX >= 3 ? 2 : NFIX >= 1 ? 1 : 0)

/* concrete value per path for a small symbolic scalar */
/* the node operated on: enumerated inside one process, or fixed per process by -DZFIX=<in-order rank> (the
 * processes for ZFIX = 0 .. NFIX-1 together cover what the enumeration covers) */
#ifdef ZFIX
#define ENUM_NODE(var) int var = (ZFIX); V_ASSUME(var < NFIX)
#else
#define ENUM_NODE(var) ENUM(var, vin.z, NFIX)
#endif
#define ENUM(var, expr, n) int var = BAD; for (int c_ = 0; c_ < (n); c_++) if ((expr) == c_) { var = c_; break; } V_ASSUME(var != BAD)

static void header(void)
{
    T.nil = &T.nil_element; T.root = T.nil; T.comp_offset = KOFF;
    T.nil_element.color = PARSEC_RBTREE_BLACK;
}

/* PRE: wf tree with exactly NFIX nodes; everything the code may not rely on is junk */
static void any_wf_tree(struct view *pre)
{
    header();
    g_alloc = 0; g_pos = 0;
    parsec_rbtree_node_t *root = T.nil;
    ENUM(bh, vin.bh, BHMAX + 1);
    root = build(bh, 1);
    V_ASSUME(g_alloc == NFIX);
    T.root = root;
    if (root != T.nil) root->parent = T.nil;
    {   /* non-strict search-tree order == in-order sequence sorted */
        int sorted = 1;
        for (int i = 0; i + 1 < NFIX; i++) sorted = sorted & (vin.key[i] <= vin.key[i + 1]);
        V_ASSUME(sorted);
        /* the same fact once more with its transitive consequences spelled out (logically redundant; bit-blasted
         * comparator chains are otherwise hard for the SAT solver) */
        for (int i = 0; i < NFIX; i++) for (int j = i + 2; j < NFIX; j++) sorted = sorted & (vin.key[i] <= vin.key[j]);
        V_ASSUME(sorted);
    }
#ifdef DISTINCT
    {   int strict = 1;
        for (int i = 0; i + 1 < NFIX; i++) strict = strict & (vin.key[i] < vin.key[i + 1]);
        V_ASSUME(strict);
    }
#endif
    /* nodes outside the tree and the sentinel's links hold junk (the sentinel's parent is written by remove) */
    for (int i = NFIX; i < NP; i++) { KEY(i) = vin.key[i]; NODE(i)->color = (parsec_rbtree_color_e)vin.zcol; }
#ifdef NIL_JUNK_CONCRETE   /* sub-case kept as its own job: concrete stale values (parent = last / first node, children = the sentinel
                            * itself), so that a read of a stale sentinel field keeps the execution concrete */
    T.nil_element.parent = ((NIL_JUNK_CONCRETE + 0) == 2) ? NODE(0) : NODE(NFIX - 1);   /* variant 2: first node */
    LEFT(T.nil) = T.nil; RIGHT(T.nil) = T.nil;
#else
    T.nil_element.parent = (vin.nilpar < NP) ? NODE(vin.nilpar) : (vin.nilpar == NP ? T.nil : NULL);
    LEFT(T.nil)  = (vin.nill < NP) ? NODE(vin.nill) : NULL;
    RIGHT(T.nil) = (vin.nilr < NP) ? NODE(vin.nilr) : NULL;
#endif
    observe(pre);
    /* the generator only yields states accepted by the independent wf checker */
    V_ASSERT(WF(*pre) & (pre->n == NFIX), "C36.lemma.generated_prestate_satisfies_wf");
}

/* ------------------------------------------------------------------------------------------ */
/* init                                                                                        */
/* ------------------------------------------------------------------------------------------ */
void h_init(void)
{
    struct view post;
    vin_load();
    parsec_rbtree_init(&T, KOFF);
    observe(&post);
    ASSERT_WF(post, "init");
    V_ASSERT(post.root == NIL && post.n == 0, "C36.init.post.view_is_empty");
    V_CANARY("init");
}

/* ------------------------------------------------------------------------------------------ */
/* insert: wf, view + node (with its key)                                                      */
/* ------------------------------------------------------------------------------------------ */
void h_insert(void)
{
    struct view pre, post;
    vin_load();
    any_wf_tree(&pre);
    int z = NFIX;                                   /* a node outside the tree, any key */
    KEY(z) = vin.q;
    parsec_rbtree_insert(&T, NODE(z));
    observe(&post);
    ASSERT_WF(post, "insert");
    V_ASSERT(same_nodes_except(&pre, &post, z, BAD), "C36.insert.post.view_gains_exactly_the_node");
    V_ASSERT(same_keys_except(&pre, &post, z) & (post.key[z] == vin.q), "C36.insert.post.no_key_changed");
    /* (the multiset of keys grows by exactly this key: consequence of the two clauses above) */
    {   int d0 = distinct_keys(&pre) & !any_key(&pre, vin.q, BAD), d1 = distinct_keys(&post);
        V_ASSERT(!d0 | d1, "C36.insert.post.map_stays_a_map_when_key_was_absent");
    }
    V_CANARY("insert");
}

/* ------------------------------------------------------------------------------------------ */
/* remove(z in tree): wf, view - z, z detached                                                 */
/* ------------------------------------------------------------------------------------------ */
void h_remove(void)
{
    struct view pre, post;
    vin_load();
    any_wf_tree(&pre);
    ENUM_NODE(z);                                   /* the removed node, enumerated */
    parsec_rbtree_remove(&T, NODE(z));
    observe(&post);
    ASSERT_WF(post, "remove");
    V_ASSERT(same_nodes_except(&pre, &post, BAD, z), "C36.remove.post.view_loses_exactly_the_node");
    V_ASSERT(same_keys_except(&pre, &post, BAD), "C36.remove.post.no_key_changed");
    {   /* detached: no node of the tree refers to z */
        int refs = (post.root == z);
        for (int i = 0; i < NP; i++) if (post.used[i]) refs = refs | (post.L[i] == z) | (post.R[i] == z) | (post.P[i] == z);
        V_ASSERT(!refs, "C36.remove.post.node_detached");
    }
    /* (the multiset of keys loses exactly key(z): consequence of the first two clauses) */
    V_CANARY("remove");
}

/* ------------------------------------------------------------------------------------------ */
/* find(k): a node of the tree with key k, NULL iff absent; state unchanged                    */
/* ------------------------------------------------------------------------------------------ */
void h_find(void)
{
    struct view pre, post;
    vin_load();
    any_wf_tree(&pre);
    parsec_rbtree_node_t *r = parsec_rbtree_find(&T, vin.q);
    int ri = idx(r);
    observe(&post);
    V_ASSERT(same_state(&pre, &post), "C36.find.post.tree_unchanged");
    V_ASSERT(V_IFF(r == NULL, !any_key(&pre, vin.q, BAD)), "C36.find.post.null_iff_key_absent");
    V_ASSERT(r == NULL || (ri >= 0 && ri < NP && pre.used[ri] && pre.key[ri] == vin.q),
             "C36.find.post.result_is_a_stored_node_with_that_key");
    V_CANARY("find");
}

/* ------------------------------------------------------------------------------------------ */
/* find_or_larger(k): the node with the smallest key >= k, NULL iff none                        */
/* ------------------------------------------------------------------------------------------ */
void h_find_or_larger(void)
{
    struct view pre, post;
    vin_load();
    any_wf_tree(&pre);
    parsec_rbtree_node_t *r = parsec_rbtree_find_or_larger(&T, vin.q);
    int ri = idx(r);
    observe(&post);
    V_ASSERT(same_state(&pre, &post), "C36.find_or_larger.post.tree_unchanged");
    V_ASSERT(V_IFF(r == NULL, !any_ge(&pre, vin.q)), "C36.find_or_larger.post.null_iff_no_key_at_or_above");
    V_ASSERT(r == NULL || (ri >= 0 && ri < NP && pre.used[ri] && pre.key[ri] >= vin.q),
             "C36.find_or_larger.post.result_is_a_stored_node_not_below_query");
    if (r != NULL && ri >= 0 && ri < NP) {
        int least = 1;
        for (int j = 0; j < NP; j++) if (pre.used[j]) least = least & ((pre.key[j] < vin.q) | (pre.key[j] >= pre.key[ri]));
        V_ASSERT(least, "C36.find_or_larger.post.result_is_the_smallest_such_key");
    }
    V_CANARY("find_or_larger");
}

/* ------------------------------------------------------------------------------------------ */
/* minimum(x in tree): leftmost node of the subtree of x = its smallest key                    */
/* ------------------------------------------------------------------------------------------ */
void h_minimum(void)
{
    struct view pre, post;
    vin_load();
    any_wf_tree(&pre);
    ENUM_NODE(x);
    parsec_rbtree_node_t *r = parsec_rbtree_minimum(&T, NODE(x));
    int ri = idx(r);
    observe(&post);
    V_ASSERT(same_state(&pre, &post), "C36.minimum.post.tree_unchanged");
    V_ASSERT(ri >= 0 && ri < NP && pre.used[ri] && pre.L[ri] == NIL, "C36.minimum.post.result_is_a_stored_node_without_left_child");
    if (ri >= 0 && ri < NP) {
        int least = 1, inside = 0;
        for (int j = 0; j < NP; j++) if (pre.used[j]) {
            /* is j in the subtree of x?  walk the (concrete) parent chain */
            int a = j, in = 0;
            for (int s = 0; s < NP; s++) { if (a == x) in = 1; if (a >= 0 && a < NP) a = pre.P[a]; }
            if (in) least = least & (pre.key[ri] <= pre.key[j]);
            if (in && j == ri) inside = 1;
        }
        V_ASSERT(inside, "C36.minimum.post.result_in_subtree");
        V_ASSERT(least, "C36.minimum.post.result_has_smallest_key_of_subtree");
    }
    V_CANARY("minimum");
}

/* ------------------------------------------------------------------------------------------ */
/* update_node(z in tree, newkey): EXISTS <=> another node holds newkey (then nothing changed),  */
/* otherwise SUCCESS, wf, same nodes, key(z) = newkey, other keys unchanged                      */
/* ------------------------------------------------------------------------------------------ */
void h_update(void)
{
    struct view pre, post;
    vin_load();
    any_wf_tree(&pre);
    ENUM_NODE(z);
    int rc = parsec_rbtree_update_node(&T, NODE(z), vin.q);
    observe(&post);
    int other = any_key(&pre, vin.q, z);
    V_ASSERT(rc == PARSEC_SUCCESS || rc == PARSEC_ERR_EXISTS, "C36.update_node.post.returns_success_or_exists");
    V_ASSERT(V_IFF(rc == PARSEC_ERR_EXISTS, other), "C36.update_node.post.exists_iff_another_node_has_new_key");
    int same = same_state(&pre, &post);
    V_ASSERT((rc != PARSEC_ERR_EXISTS) | same, "C36.update_node.post.exists_leaves_tree_unchanged");
    ASSERT_WF(post, "update_node");
    V_ASSERT(same_nodes_except(&pre, &post, BAD, BAD), "C36.update_node.post.same_set_of_nodes");
    int onlyz = same_keys_except(&pre, &post, z) & (post.key[z] == vin.q);
    V_ASSERT((rc != PARSEC_SUCCESS) | onlyz, "C36.update_node.post.success_sets_only_this_key");
    /* "a map stays a map" (distinct keys are preserved) is the conjunction of the three clauses above:
     * SUCCESS only if no other node holds the new key, and only this key changes */
    V_CANARY("update_node");
}

/* ------------------------------------------------------------------------------------------ */
/* histories from the empty tree (cross-check that does not use the pre-state generator): real init, */
/* KOPS real inserts with symbolic keys, then the removal of one enumerated node (or none), then one  */
/* of the two queries with a symbolic key; a ghost record of the expected view (set of nodes + keys)  */
/* is compared after every step                                                                     */
/* ------------------------------------------------------------------------------------------ */
void h_history(void)
{
    struct view v;
    int in[NP], key[NP];
    vin_load();
    for (int i = 0; i < NP; i++) { in[i] = 0; key[i] = 0; }
#ifdef WITH_OBJECT_SYSTEM
    parsec_rbtree_init(&T, KOFF);
#else
    header();
#endif
    for (int s = 0; s < KOPS + 1; s++) {
        if (s < KOPS) {                                 /* insert the next node, symbolic key */
            int z = s, k = vin.hk[s];
            KEY(z) = k;
            parsec_rbtree_insert(&T, NODE(z));
            in[z] = 1; key[z] = k;
        } else {                                        /* then remove one of them, or nothing */
            ENUM(z, vin.hz[0], KOPS + 1);
            if (z < KOPS) { parsec_rbtree_remove(&T, NODE(z)); in[z] = 0; }
        }
        observe(&v);
        ASSERT_WF(v, "history");
        {
            int same = 1;
            for (int i = 0; i < NP; i++) { same = same & (v.used[i] == in[i]); if (in[i]) same = same & (v.key[i] == key[i]); }
            V_ASSERT(same, "C36.history.post.view_equals_expected_set_of_nodes_and_keys");
        }
    }
    ENUM(which, vin.op[0], 2);
    if (which == 0)
    {   /* exact lookup finds exactly the stored keys */
        int k = vin.q;
        parsec_rbtree_node_t *r = parsec_rbtree_find(&T, k);
        int ri = idx(r), present = 0;
        for (int i = 0; i < NP; i++) if (in[i]) present = present | (key[i] == k);
        V_ASSERT(V_IFF(r != NULL, present), "C36.history.find.post.found_iff_key_stored");
        V_ASSERT(r == NULL || (ri >= 0 && ri < NP && in[ri] && key[ri] == k), "C36.history.find.post.result_is_a_stored_node_with_that_key");
    }
    else
    {   /* lookup-or-larger returns the smallest stored key not below the query */
        int k = vin.q;
        parsec_rbtree_node_t *r = parsec_rbtree_find_or_larger(&T, k);
        int ri = idx(r), some = 0;
        for (int i = 0; i < NP; i++) if (in[i]) some = some | (key[i] >= k);
        V_ASSERT(V_IFF(r != NULL, some), "C36.history.find_or_larger.post.found_iff_some_key_at_or_above");
        int least = 1;
        if (r != NULL) {
            least = (ri >= 0 && ri < NP);
            if (least) {
                least = in[ri] & (key[ri] >= k);
                for (int j = 0; j < NP; j++) if (in[j]) least = least & ((key[j] < k) | (key[j] >= key[ri]));
            }
        }
        V_ASSERT(least, "C36.history.find_or_larger.post.result_is_smallest_key_at_or_above");
    }
    V_CANARY("history");
}

#ifndef VERIF_REPLAY
#pragma CPROVER check pop
#endif
