from vlib import Job

FUNCS = ["parsec_rbtree_init", "parsec_rbtree_insert", "parsec_rbtree_insert_fixup", "parsec_rbtree_left_rotate",
         "parsec_rbtree_right_rotate", "parsec_rbtree_remove", "parsec_rbtree_delete_fixup", "parsec_rbtree_transplant",
         "parsec_rbtree_minimum", "parsec_rbtree_find", "parsec_rbtree_find_or_larger", "parsec_rbtree_update_node"]

META = dict(
    level="other",
    functions=FUNCS,
    explanation="One-step contracts (requires wf, ensures wf and the change of the abstract view) on the real "
                "parsec/class/parsec_rbtree.c, harness route, CBMC path-wise symbolic execution (--paths lifo). The pre-state of "
                "each contract is ANY well-formed tree with exactly n nodes (one cbmc process per n and operation): its shape comes "
                "from the inductive definition of red-black trees (symbolic colour choice at every position whose parent is not red, "
                "black height symbolic), so that every explored path has concrete pointers, while ALL keys are unconstrained 32-bit "
                "ints subject only to the non-strict search-tree order (duplicates allowed anywhere the order allows them); the "
                "sentinel's parent/left/right fields and the fields of nodes outside the tree hold arbitrary junk. wf of every "
                "post-state is decided by an independent flat checker (breadth-first discovery of the reachable nodes, then witness "
                "arrays black-height / subtree-min / subtree-max built bottom-up and checked): binary tree inside the pool, "
                "child->parent consistent, root->parent == nil, left subtree <= node <= right subtree, root black, nil black, no "
                "red-red edge, equal black height. View = set of reachable nodes with their keys (for distinct keys: the finite map "
                "key -> node of C28's abstract contract). By induction over the history (init establishes wf of the empty view) the "
                "contracts give the property for every sequence of operations that keeps the tree within the node bound. A separate "
                "job runs histories from the real parsec_rbtree_init (k inserts with symbolic keys, one enumerated removal, one query) "
                "without using the pre-state generator. Larger sizes of remove / update_node are split into one process per node "
                "operated on (-DZFIX), and every remove size >= 3 additionally runs two sub-cases with concrete stale values in the "
                "sentinel's link fields, so that code which reads a stale sentinel field fails fast instead of exploding.",
    trusted_base=["the pre-state generator build() enumerates every red-black shape with n nodes (it is the inductive definition: "
                  "nil | red node with two non-red subtrees of equal black height | black node with two subtrees of equal black height "
                  "b-1); each generated state is checked against the independent wf checker (obligation C36.lemma.*), the converse "
                  "inclusion is by construction",
                  "node-renaming symmetry: pre-state nodes are numbered by in-order rank; parsec_rbtree.c uses node addresses only in "
                  "equality tests, never ordered or hashed",
                  "memory-safety checks (--pointer-check --bounds-check) are switched off inside the specification code of the harness "
                  "(#pragma CPROVER check disable), they stay on for the real code",
                  "CaDiCaL as SAT back end of cbmc (--sat-solver cadical; cbmc's default MiniSat does not terminate within the budget on some of the per-path queries)"],
    assumptions=["node bound: pre-states have at most N nodes (N per job group below); larger trees are not examined",
                 "the key lives in an int at comp_offset inside the user node that embeds parsec_rbtree_node_t first (as zone_malloc's "
                 "zone_malloc_chunk_list_t does); HIGHER_IS_BETTER as configured (A_LOWER_PRIORITY_THAN_B is '<')",
                 "PRE insert: node not in the tree; PRE remove / update_node / minimum: node in the tree (callers' obligations, C28)",
                 "single-threaded use (zone_malloc calls the tree under its lock)"],
)

CAD = ["--sat-solver", "cadical"]


def jobs(tier):
    full = tier == "thorough"
    n_ins = 6 if full else 4       # pre-state sizes for insert
    n_rem = 6 if full else 5       # ... for remove (5: smallest size where a rotation moves a non-nil inner subtree)
    n_qry = 6 if full else 4       # for find
    n_fol = 5 if full else 4       # for find_or_larger / minimum
    n_upd = 4                     # for update_node (remove + insert + find inside: most paths)
    kops = 3 if full else 2
    to = 2400 if full else 280
    J = [Job("init", "h_rbtree.c", entry="h_init", unwind=12, defines={"WITH_OBJECT_SYSTEM": None, "NMAX": 1, "NFIX": 0},
             unwindset={"expand_array.0": 11}, functions=["parsec_rbtree_init"], timeout=300, min_obligations=9, extra_cbmc=CAD, mem_gb=2)]

    def one(name, entry, n, fn, minob, extra=None, what=""):
        d = {"NFIX": n, "NMAX": max(n, 1)}
        d.update(extra or {})
        J.append(Job(name, "h_rbtree.c", entry=entry, unwind=n + 6, paths="lifo", defines=d, functions=fn, timeout=to,
                     min_obligations=minob, extra_cbmc=CAD, mem_gb=2,
                     bounded="pre-state: every well-formed tree with exactly %d nodes, all 32-bit keys%s" % (n, what)))

    def grp(op, entry, lo, hi, fn, minob, split_from=99):
        # from size split_from on, one process per node operated on (-DZFIX = in-order rank): same coverage, shorter processes
        for n in range(lo, hi + 1):
            if n >= split_from:
                for z in range(n):
                    one("%s.n%d.node%d" % (op, n, z), entry, n, fn, minob, {"ZFIX": z}, ", node operated on = rank %d" % z)
            else:
                one("%s.n%d" % (op, n), entry, n, fn, minob)
    F_INS = ["parsec_rbtree_insert", "parsec_rbtree_insert_fixup", "parsec_rbtree_left_rotate", "parsec_rbtree_right_rotate"]
    F_REM = ["parsec_rbtree_remove", "parsec_rbtree_delete_fixup", "parsec_rbtree_transplant", "parsec_rbtree_minimum",
             "parsec_rbtree_left_rotate", "parsec_rbtree_right_rotate"]
    grp("insert", "h_insert", 0, n_ins, F_INS, 11)
    grp("remove", "h_remove", 1, n_rem, F_REM, 11, split_from=5)
    # sub-cases of the remove jobs with CONCRETE stale values in the sentinel's link fields (parent = last / first node of the
    # tree, children = the sentinel itself).  In the general jobs those fields are symbolic junk pointers: code that reads one of
    # them before writing it makes the general job explode (timeout = undecided) instead of failing; here the execution stays
    # concrete and the wf clauses fail within seconds.
    for n in range(3, n_rem + 1):
        for v in (1, 2):
            one("remove.n%d.sentinel_links_concrete%d" % (n, v), "h_remove", n, F_REM, 11, {"NIL_JUNK_CONCRETE": v},
                ", sentinel parent = %s node, sentinel children = sentinel" % ("last" if v == 1 else "first"))
    grp("find", "h_find", 0, n_qry, ["parsec_rbtree_find"], 3)
    grp("find_or_larger", "h_find_or_larger", 0, n_fol, ["parsec_rbtree_find_or_larger"], 4)
    grp("minimum", "h_minimum", 1, n_fol, ["parsec_rbtree_minimum"], 4)
    grp("update_node", "h_update", 1, n_upd, ["parsec_rbtree_update_node", "parsec_rbtree_find", "parsec_rbtree_remove", "parsec_rbtree_insert"], 13,
        split_from=3)
    J.append(Job("history.k%d" % kops, "h_rbtree.c", entry="h_history", unwind=max(12, kops + 6), paths="lifo",
                 defines={"WITH_OBJECT_SYSTEM": None, "KOPS": kops, "NMAX": kops - 1, "NFIX": 0}, unwindset={"expand_array.0": 11},
                 functions=["parsec_rbtree_init", "parsec_rbtree_insert", "parsec_rbtree_remove", "parsec_rbtree_find", "parsec_rbtree_find_or_larger"],
                 timeout=to, min_obligations=14, extra_cbmc=CAD, mem_gb=2,
                 bounded="histories from the empty tree: %d inserts (symbolic keys), then one removal or none, then one query" % kops))
    return J


MANIFEST = dict(
    category="other",
    text="Contract check of the real red-black tree: for EVERY well-formed tree with at most N nodes (N = 4 quick / 6 thorough for insert, 5 / 6 for remove, 4 / 6 for "
         "find, 4 / 5 for find_or_larger and minimum, 4 / 4 for update_node), every 32-bit key assignment respecting the search "
         "order (duplicates included) and every argument, CBMC discharges: insert / remove / update_node re-establish all red-black "
         "and search-tree invariants and parent pointers and change the view by exactly the node (resp. the key) concerned; "
         "update_node returns PARSEC_ERR_EXISTS exactly when another node holds the new key and then changes nothing; find returns a "
         "stored node with the key and NULL exactly when the key is absent; find_or_larger returns the stored node with the smallest "
         "key not below the query and NULL exactly when there is none; the queries change nothing; init gives the empty well-formed "
         "tree; no invalid pointer use in the real code. Induction over the history extends this to sequences of any length as long as "
         "the tree stays within the node bound. Level 'other' because the node bound is a stand-in for unbounded trees.",
    note="Not decided: trees with more than N nodes (N = 6 / 5 / 4 depending on the operation in the thorough tier); long random sequences (not part of this technique); "
         "concurrent use; parsec_rbtree_fini and parsec_rbtree_foreach. Trusted: the generator of pre-state shapes is the inductive "
         "definition of red-black trees (each generated state is checked against an independent flat wf checker; completeness is by "
         "construction), node-renaming symmetry, CaDiCaL.",
    technique="pre/post contracts with ghost view on the real parsec_rbtree.c, harness route, discharged by CBMC 6.11 path-wise "
              "(--paths lifo, concrete shapes, symbolic keys), one process per operation and tree size",
    design_ref="DESIGN.md section 5, C36")
