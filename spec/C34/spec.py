from vlib import Job

FUNCS_CHAIN = ["parsec_class_initialize", "parsec_class_finalize", "parsec_obj_new", "parsec_obj_run_constructors",
               "parsec_obj_run_destructors", "parsec_obj_destruct", "parsec_obj_destruct_and_free",
               "PARSEC_OBJ_NEW", "PARSEC_OBJ_CONSTRUCT", "PARSEC_OBJ_DESTRUCT"]
FUNCS_REF = ["parsec_obj_update", "PARSEC_OBJ_RETAIN", "PARSEC_OBJ_RELEASE", "PARSEC_OBJ_CONSTRUCT_WRELEASE"]

META = dict(
    level="proof",
    functions=FUNCS_CHAIN + FUNCS_REF,
    explanation="Contracts on the real parsec/class/parsec_object.c and the static-inline / macro layer of parsec_object.h "
                "(macros exercised through one-line wrappers). (A) Destructor chain: for every class hierarchy of 1..4 user "
                "classes on top of parsec_object_t with any subset of levels having a NULL constructor / destructor (all 340 "
                "shapes, enumerated concretely inside one symbolic execution because parsec_class_initialize allocates a "
                "shape-dependent number of words), parsec_class_initialize builds the destructor array = non-NULL destructors "
                "most derived first, NULL-terminated, the constructor array the reverse, is idempotent and initialises/registers "
                "the class exactly once even if another thread runs the same initialisation between the unlocked test and the "
                "lock (the environment step executes the real function); run_constructors / run_destructors call every entry "
                "exactly once in order on this object (ghost log); the obj_release installed by PARSEC_OBJ_NEW runs the chain once "
                "and then frees. (B) Reference counting, class independent: PARSEC_OBJ_RELEASE calls obj_release(object) exactly "
                "once iff its own atomic update returned 0, and NULLs the pointer exactly then, for every 32-bit count without "
                "interference and, under the rely 'others retain/release by atomic +-1 while holding references, never from 0, and "
                "may free the object as soon as I hold nothing', with the invariant count == references held; after a release "
                "that was not the last the object is not touched again (it is freed by the environment: pointer check). A lemma "
                "composes the per-thread contracts: at most one release observes 0 and none can while another reference is held. "
                "(C) bounded cross-check on whole linearised histories (3 threads) on real PARSEC_OBJ_NEW objects. "
                "(D) the hierarchy made of the base class alone: the pre-initialised parsec_object_t_class carries empty "
                "NULL-terminated chains (class invariant the macros rely on when they skip parsec_class_initialize) and a plain "
                "parsec_object_t goes through construct/new, retain, release, destruct, free correctly (this job found the NULL "
                "chain arrays repaired by /repo commit ea7592a).",
    trusted_base=["rely/guarantee soundness theorem (per-thread obligations under the rely imply the invariant for every interleaving)",
                  "ghost constructors/destructors ctor_i/dtor_i and the ghost obj_release rel_spy only log (user constructors that "
                  "retain/release the object under construction are outside the statement)",
                  "CBMC's model of malloc/realloc/free (fresh objects; --no-malloc-may-fail: out-of-memory exits are not explored)",
                  "symbolic-execution constant propagation of CBMC decides the enumerated-shape obligations (they never reach the SAT solver)"],
    assumptions=["every RETAIN/RELEASE is performed by a thread that holds (or is lent) a reference for the duration of the call "
                 "(PRE of the contracts; the callers' discipline is not checked here)",
                 "fewer than 2^31-1 references to one object (the 32-bit count does not wrap)",
                 "sequentially consistent atomics; the unlocked read of cls_initialized in parsec_class_initialize / PARSEC_OBJ_NEW is "
                 "treated as ordered after the stores that fill the arrays (true on x86-TSO, not checked for weaker models)",
                 "interference on parsec_class_initialize is limited to other threads initialising the SAME class (the global "
                 "registry is protected by class_lock; concurrent parsec_class_finalize is not considered)"],
)


PART_N = 8          # the 340 shapes are dealt round-robin to PART_N jobs (symbolic execution time is quadratic in shapes per run)


def jobs(tier):
    full = tier == "thorough"
    nops = 5 if full else 3
    J = []
    # (A) all 340 shapes x {no interference, another thread initialises meanwhile}: complete over the property's domain
    for i in range(PART_N):
        part = {"PART_N": PART_N, "PART_I": i}
        J.append(Job("class_init.shapes_%d_of_%d" % (i, PART_N), "h_obj.c", entry="h_class_init", unwind=17, object_bits=12,
                     defines=part, functions=["parsec_class_initialize", "parsec_class_finalize"], timeout=600, min_obligations=14))
        J.append(Job("lifecycle.shapes_%d_of_%d" % (i, PART_N), "h_obj.c", entry="h_lifecycle", unwind=17, object_bits=12,
                     defines=part, functions=FUNCS_CHAIN + ["PARSEC_OBJ_RETAIN", "PARSEC_OBJ_RELEASE"], timeout=600, min_obligations=16))
    # (B) every 32-bit count, class independent
    J += [
        Job("release.seq.all_counts", "h_obj.c", entry="h_update_seq", unwind=12,
            functions=FUNCS_REF, timeout=300, min_obligations=9),
        Job("release.rg", "h_obj.c", entry="h_release_rg", unwind=2,
            functions=["PARSEC_OBJ_RELEASE", "parsec_obj_update"], timeout=300, min_obligations=8),
        Job("release.rg.reuse", "h_obj.c", entry="h_release_rg", unwind=2, defines={"ENV_REUSE": None},
            functions=["PARSEC_OBJ_RELEASE", "parsec_obj_update"], timeout=300, min_obligations=8),
        Job("retain.rg", "h_obj.c", entry="h_retain_rg", unwind=2,
            functions=["PARSEC_OBJ_RETAIN", "parsec_obj_update"], timeout=300, min_obligations=5),
        Job("lemma.at_most_one_zero", "h_obj.c", entry="h_lemma", unwind=2, functions=[], timeout=300, min_obligations=5),
    ]
    # (C) stand-in for the unbounded history length; one job per depth (with --paths the histories of consecutive depths would multiply)
    for d in (1, 2, 3, 4):
        J.append(Job("history.bounded.depth%d" % d, "h_obj.c", entry="h_history", unwind=12, paths="lifo",
                     defines={"NOPS": nops, "DEPTH_LO": d, "DEPTH_HI": d}, object_bits=10,
                     bounded="linearised histories of at most %d RETAIN/RELEASE operations by 3 threads on a PARSEC_OBJ_NEW object; "
                             "hierarchy of depth %d with a constructor and destructor at every level" % (nops, d),
                     functions=["PARSEC_OBJ_NEW", "PARSEC_OBJ_RETAIN", "PARSEC_OBJ_RELEASE", "parsec_obj_destruct_and_free"],
                     timeout=1800 if full else 600, min_obligations=3))
    # Hierarchy made of the base class alone (PARSEC_OBJ_CONSTRUCT(x, parsec_object_t), as parsec_data_new() does with a recycled
    # item): the statically pre-initialised parsec_object_t_class must carry empty NULL-terminated chain arrays (it had NULL arrays
    # and crashed before /repo commit ea7592a, found by this job); then construct / new / retain / release / destruct / free.
    J.append(Job("base_class.chains", "h_base.c", entry="h_base_class", unwind=12,
                 functions=["PARSEC_OBJ_CONSTRUCT", "PARSEC_OBJ_NEW", "PARSEC_OBJ_RETAIN", "PARSEC_OBJ_RELEASE", "PARSEC_OBJ_DESTRUCT",
                            "parsec_obj_run_constructors", "parsec_obj_run_destructors", "parsec_obj_destruct_and_free"],
                 timeout=300, min_obligations=10))
    return J


MANIFEST = dict(
    category="proof",
    text="Every obligation of the contracts of parsec_class_initialize, parsec_obj_new, parsec_obj_run_constructors/destructors, "
         "parsec_obj_destruct(_and_free), parsec_obj_update and of the PARSEC_OBJ_NEW/CONSTRUCT/DESTRUCT/RETAIN/RELEASE macros is "
         "discharged by CBMC on the real parsec_object.c/.h: destructor chain exactly once, most derived to base, for all 340 class "
         "shapes of depth 1..4 (the property's own domain, enumerated completely); RELEASE destroys iff its own atomic update took "
         "the count to 0, for all 32-bit counts and under arbitrary interference permitted by the rely (loop-free code: complete); an "
         "arithmetic lemma gives 'at most one release observes 0, and none while a reference is held'. Whole histories are "
         "additionally cross-checked up to a bounded length (reported as bounded, not counted as proved). The base class alone "
         "(plain parsec_object_t, as used by parsec_data_new) is covered by its own job.",
    note="Not decided: that callers respect the precondition 'holds a reference' (use-after-release by a caller is outside); weak-memory "
         "behaviour of the unlocked cls_initialized test; user constructors/destructors with side effects on the count; out-of-memory "
         "paths; concurrent parsec_class_finalize. Rely/guarantee soundness is trusted; the history cross-check is bounded "
         "(3 operations quick / 5 thorough, 3 threads). The shape domain is decided by CBMC's symbolic execution (constant propagation), "
         "not by the SAT solver.",
    technique="function contracts + rely/guarantee ghost state on the real parsec_object.c / parsec_object.h, discharged by CBMC "
              "(complete enumeration of the class shapes in symbolic execution, SAT for the 32-bit count)",
    design_ref="DESIGN.md section 5, C34")
