/* C34, hierarchy consisting of the base class only: an object whose class is parsec_object_t itself
 * (PARSEC_OBJ_CONSTRUCT(x, parsec_object_t) is what parsec_data_new() does with a recycled item, parsec/data.c:160).
 *
 * Contract of parsec_obj_run_constructors / parsec_obj_run_destructors, from their call sites:
 *   PRE  object->obj_class->cls_construct_array (cls_destruct_array) points to a NULL-terminated array.
 * parsec_class_initialize establishes it for every class it initialises (h_obj.c, section 1); the macros skip
 * parsec_class_initialize when cls_initialized != 0, so the class invariant
 *   Inv  cls_initialized == 1  ==>  both chain arrays are non-NULL and NULL-terminated
 * must hold for every class descriptor, including the statically "pre-initialised" parsec_object_t_class
 * (it did not before /repo commit ea7592a: both arrays were NULL and construct / release crashed).
 * The base class has no constructor and no destructor: its chains are empty, and the life cycle of such an object
 * is count 1 -> RETAIN 2 -> RELEASE 1 -> RELEASE 0: obj_release runs once (no destructor to call), storage freed
 * exactly when it came from PARSEC_OBJ_NEW.
 */
#include "verif.h"
#define VERIF_RG_DEFAULT_HOOKS
#include "verif_rg.h"
#include "parsec/parsec_config.h"
#include <stdlib.h>
static void verif_free(void *p);          /* ghost observation of free(), see h_obj.c */
#define free(p) verif_free(p)
#include "parsec/class/parsec_object.c"
#undef free

struct vin { uint8_t unused; } vin;   /* no symbolic input: both cases are executed (concrete control flow, see h_obj.c) */
#include "verif_vin.h"

static void *g_watch; static int g_watch_freed, g_other_freed;
static void verif_free(void *p) { if (p != NULL) { if (p == g_watch) g_watch_freed++; else g_other_freed++; } free(p); }

static parsec_object_t  g_static_obj;
static parsec_object_t *w_new(void) { return PARSEC_OBJ_NEW(parsec_object_t); }
static void w_construct(parsec_object_t *o) { PARSEC_OBJ_CONSTRUCT(o, parsec_object_t); }
static void w_destruct(parsec_object_t *o) { PARSEC_OBJ_DESTRUCT(o); }
static void w_retain(parsec_object_t *o) { PARSEC_OBJ_RETAIN(o); }
static parsec_object_t *w_release(parsec_object_t *o) { PARSEC_OBJ_RELEASE(o); return o; }

void h_base_class(void)
{
    vin_load();
    parsec_class_t *cls = PARSEC_OBJ_CLASS(parsec_object_t);
    /* PRE of run_constructors / run_destructors for an object of this class (the macros skip parsec_class_initialize) */
    int inv = V_IMPLIES(cls->cls_initialized == 1, cls->cls_construct_array != NULL && cls->cls_destruct_array != NULL);
    V_ASSERT(inv, "C34.parsec_object_t_class.inv.preinitialized_base_class_has_null_terminated_chain_arrays");
    if (inv) for (int use_new = 0; use_new < 2; use_new++) {   /* without it the real code dereferences NULL (parsec_object.h:433 / :455); nothing sensible to check beyond */
        V_ASSERT(cls->cls_initialized == 1 && cls->cls_construct_array[0] == NULL && cls->cls_destruct_array[0] == NULL,
                 "C34.parsec_object_t_class.inv.base_class_chains_are_empty");
        parsec_construct_t *ca = cls->cls_construct_array; parsec_destruct_t *da = cls->cls_destruct_array;
        parsec_object_t *o;
        if (use_new) {
            o = w_new(); V_ASSUME(o != NULL);
            V_ASSERT(o->obj_release == &parsec_obj_destruct_and_free, "C34.parsec_obj_new.post.base_class_release_is_destruct_and_free");
        } else {
            o = &g_static_obj; w_construct(o);           /* pointer check inside the real parsec_obj_run_constructors */
            V_ASSERT(o->obj_release == &parsec_obj_destruct, "C34.PARSEC_OBJ_CONSTRUCT.post.base_class_release_is_destruct_only");
        }
        g_watch = o; g_watch_freed = 0; g_other_freed = 0;
        V_ASSERT(o->obj_reference_count == 1 && o->obj_class == cls, "C34.PARSEC_OBJ_CONSTRUCT.post.base_class_object_count_1");
        V_ASSERT(cls->cls_construct_array == ca && cls->cls_destruct_array == da && num_classes == 0,
                 "C34.PARSEC_OBJ_CONSTRUCT.post.preinitialized_base_class_not_initialised_again");
        w_retain(o);
        V_ASSERT(o->obj_reference_count == 2, "C34.PARSEC_OBJ_RETAIN.post.base_class_object_count_plus_1");
        parsec_object_t *p = w_release(o);
        V_ASSERT(p == o && g_watch_freed == 0 && o->obj_reference_count == 1,
                 "C34.PARSEC_OBJ_RELEASE.post.base_class_object_not_last_reference_nothing_destroyed");
        p = w_release(o);                                /* pointer check inside the real parsec_obj_run_destructors */
        V_ASSERT(p == NULL, "C34.PARSEC_OBJ_RELEASE.post.base_class_object_last_reference_pointer_nulled");
        V_ASSERT(g_watch_freed == (use_new ? 1 : 0) && g_other_freed == 0,
                 "C34.parsec_obj_destruct_and_free.post.base_class_object_freed_once_iff_from_new");
        if (!use_new) {                              /* explicit PARSEC_OBJ_DESTRUCT of a re-constructed object */
            w_construct(o);
            V_ASSERT(o->obj_reference_count == 1, "C34.PARSEC_OBJ_CONSTRUCT.post.base_class_object_reconstruct_count_1");
            w_destruct(o);
            V_ASSERT(g_watch_freed == 0 && g_other_freed == 0, "C34.PARSEC_OBJ_DESTRUCT.post.base_class_object_storage_not_freed");
        }
    }
    V_CANARY("base_class");
}
