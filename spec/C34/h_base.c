/* C34, hierarchy consisting of the base class only: an object whose class is parsec_object_t itself
 * (PARSEC_OBJ_CONSTRUCT(x, parsec_object_t) is what parsec_data_new() does with a recycled item, parsec/data.c:160).
 *
 * Contract of parsec_obj_run_constructors / parsec_obj_run_destructors, from their call sites:
 *   PRE  object->obj_class->cls_construct_array (cls_destruct_array) points to a NULL-terminated array.
 * parsec_class_initialize establishes it for every class it initialises (h_obj.c, section 1); the macros skip
 * parsec_class_initialize when cls_initialized != 0, so the class invariant
 *   Inv  cls_initialized == 1  ==>  both chain arrays are non-NULL and NULL-terminated
 * must hold for every class descriptor, including the statically "pre-initialised" parsec_object_t_class.
 */
#include "verif.h"
#define VERIF_RG_DEFAULT_HOOKS
#include "verif_rg.h"
#include "parsec/parsec_config.h"
#include "parsec/class/parsec_object.c"

struct vin { uint8_t use_new; } vin;
#include "verif_vin.h"

static parsec_object_t  g_static_obj;
static parsec_object_t *w_new(void) { return PARSEC_OBJ_NEW(parsec_object_t); }
static void w_construct(parsec_object_t *o) { PARSEC_OBJ_CONSTRUCT(o, parsec_object_t); }
static parsec_object_t *w_release(parsec_object_t *o) { PARSEC_OBJ_RELEASE(o); return o; }

void h_base_class(void)
{
    vin_load();
    parsec_class_t *cls = PARSEC_OBJ_CLASS(parsec_object_t);
    /* PRE of run_constructors / run_destructors for an object of this class (the macros skip parsec_class_initialize) */
    int inv = V_IMPLIES(cls->cls_initialized == 1, cls->cls_construct_array != NULL && cls->cls_destruct_array != NULL);
    V_ASSERT(inv, "C34.parsec_object_t_class.inv.preinitialized_base_class_has_null_terminated_chain_arrays");
    if (inv) {   /* without it the real code dereferences NULL (parsec_object.h:433 / :455); nothing sensible to check beyond */
        parsec_object_t *o;
        if (vin.use_new) { o = w_new(); V_ASSUME(o != NULL); }
        else { o = &g_static_obj; w_construct(o); }      /* pointer check inside the real parsec_obj_run_constructors */
        V_ASSERT(o->obj_reference_count == 1 && o->obj_class == cls, "C34.PARSEC_OBJ_CONSTRUCT.post.base_class_object_count_1");
        parsec_object_t *p = w_release(o);               /* pointer check inside the real parsec_obj_run_destructors */
        V_ASSERT(p == NULL, "C34.PARSEC_OBJ_RELEASE.post.base_class_object_last_reference_pointer_nulled");
    }
    V_CANARY("base_class");
}
