/* C34: objects are destroyed exactly once when their last reference goes.
 *
 * Contracts on the REAL parsec/class/parsec_object.c + parsec_object.h (included
 * verbatim): parsec_class_initialize, parsec_class_finalize, parsec_obj_new,
 * parsec_obj_run_constructors, parsec_obj_run_destructors, parsec_obj_update,
 * parsec_obj_destruct(_and_free) and the macros PARSEC_OBJ_NEW / CONSTRUCT(_WRELEASE) /
 * DESTRUCT / RETAIN / RELEASE (through one-line wrappers: a macro cannot carry a contract).
 *
 * The statement is split the way the code is layered:
 *  (A) destructor chain (sections 1, 2): for EVERY class hierarchy of 1..4 user classes
 *      K[0] (most derived) .. K[depth-1] on top of the real base class parsec_object_t_class,
 *      every level having independently a constructor / destructor or NULL (340 shapes,
 *      enumerated concretely inside one symbolic execution: parsec_class_initialize allocates
 *      (nc+nd+2) words and a symbolic allocation size does not get through the back end),
 *      the object's obj_release function (parsec_obj_destruct_and_free / parsec_obj_destruct)
 *      runs each non-NULL destructor exactly once, most derived first, then frees.
 *      Level i's constructor/destructor are the ghost functions ctor_i/dtor_i: they append
 *      (kind,i) to a ghost log, nothing else.
 *  (B) reference counting (sections 3, 4, 5): PARSEC_OBJ_RELEASE calls obj_release(object)
 *      exactly once iff ITS OWN atomic update took the count to 0, for every 32-bit count and
 *      under interference.  Independent of the class: obj_release is a ghost spy function.
 *  (C) section 6: whole histories on the real thing (bounded cross-check).
 *
 * Concurrency (rely/guarantee, DESIGN 4.3): ghost g_mine = references held by the calling
 * thread, g_others = references held by all other threads together.
 *   Inv   : obj_reference_count == g_mine + g_others
 *   PRE   : g_mine >= 1 (the caller of RETAIN/RELEASE holds a reference)
 *   Rely  : before each of my atomic operations the others may retain/release any number
 *           of times, each by an atomic +-1 performed by a holder of a reference, i.e.
 *           g_others moves to any value >= 0 (the count never moves away from 0: when
 *           nobody holds a reference nobody acts); once I hold no reference and the
 *           count is still > 0 the others may destroy and FREE the object at any time
 *           (job release.rg: really freed, so any later access is a pointer-check failure;
 *           job release.rg.reuse: the storage is re-used, the count word holds anything).
 *   Guar  : my own step changes the count by exactly -1 (RELEASE) / +1 (RETAIN), once.
 */
#include "verif.h"
#include "verif_rg.h"
#include "parsec/parsec_config.h"
/* ghost observation of free(): calls to free in the real text are routed, by name, through verif_free (which logs and
 * then calls the C library's / CBMC's free), the same way verif_rg.h routes the atomics */
#include <stdlib.h>
static void verif_free(void *p);
#define free(p) verif_free(p)
#include "parsec/class/parsec_object.c"
#undef free

#define MAXD 4
#ifndef DEPTH_LO
#define DEPTH_LO 1
#endif
#ifndef DEPTH_HI
#define DEPTH_HI MAXD
#endif
#ifndef NOPS
#define NOPS 4          /* history length of h_history (a stand-in: labelled bounded) */
#endif
#define NTHR 3

struct vin {
    int32_t count0;                /* seq contract of RELEASE/RETAIN: any count          */
    int32_t mine0, others0;        /* rg: references held by me / by the others          */
    int32_t env[2];                /* rg: change of the others' holdings at each env step*/
    uint8_t env_kill;              /* rg: the others destroy+free once I let go          */
    int32_t reuse;                 /* rg (ENV_REUSE): what the freed and re-used word holds afterwards */
    uint8_t op_thr[NOPS];          /* history: acting thread                             */
    uint8_t op_rel[NOPS];          /* history: 1 = RELEASE, 0 = RETAIN                   */
} vin;
#include "verif_vin.h"

/* ------------------------------------------------------------------ */
/* ghost log + the class hierarchy                                     */
/* ------------------------------------------------------------------ */
#define LOGN 12
static uint8_t g_log[LOGN];
static int     g_nlog;
static int     g_log_wrong_obj;
static parsec_object_t *g_expect_obj;
static void glog(uint8_t e, parsec_object_t *o)
{
    if (o != g_expect_obj) g_log_wrong_obj = 1;
    if (g_nlog < LOGN) g_log[g_nlog] = e;
    g_nlog++;
}
#define EC(i) (0x10 | (i))
#define ED(i) (0x20 | (i))
static void ctor_0(parsec_object_t *o) { glog(EC(0), o); }
static void ctor_1(parsec_object_t *o) { glog(EC(1), o); }
static void ctor_2(parsec_object_t *o) { glog(EC(2), o); }
static void ctor_3(parsec_object_t *o) { glog(EC(3), o); }
static void dtor_0(parsec_object_t *o) { glog(ED(0), o); }
static void dtor_1(parsec_object_t *o) { glog(ED(1), o); }
static void dtor_2(parsec_object_t *o) { glog(ED(2), o); }
static void dtor_3(parsec_object_t *o) { glog(ED(3), o); }
static const parsec_construct_t CT[MAXD] = { ctor_0, ctor_1, ctor_2, ctor_3 };
static const parsec_destruct_t  DT[MAXD] = { dtor_0, dtor_1, dtor_2, dtor_3 };

typedef struct { parsec_object_t super; int payload[3]; } lvl0_t;
static parsec_class_t K[MAXD];
#define lvl0_t_class K[0]          /* PARSEC_OBJ_CLASS(lvl0_t) == &K[0] */

/* the shape of the hierarchy: enumerated, not symbolic (see header) */
static struct { int depth; int has_c[MAXD], has_d[MAXD]; } S;
/* the symbolic execution slows down quadratically with the number of shapes done in one run, so the 340 shapes are
 * dealt round-robin to PART_N jobs; job PART_I does the shapes whose running number is PART_I modulo PART_N */
#ifndef PART_N
#define PART_N 1
#define PART_I 0
#endif
static int g_shape_no;
#define FOR_EACH_SHAPE(d, cm, dm)                               \
    g_shape_no = 0;                                             \
    for (int d = DEPTH_LO; d <= DEPTH_HI; d++)                  \
        for (int cm = 0; cm < (1 << d); cm++)                   \
            for (int dm = 0; dm < (1 << d); dm++)               \
                if (g_shape_no++ % PART_N == PART_I)

static void build_hierarchy(int depth, int cmask, int dmask)
{
    S.depth = depth;
    for (int i = 0; i < MAXD; i++) {
        S.has_c[i] = (cmask >> i) & 1; S.has_d[i] = (dmask >> i) & 1;
        K[i].cls_name = "lvl";
        K[i].cls_parent = (i + 1 < depth) ? &K[i + 1] : &parsec_object_t_class;
        K[i].cls_construct = (i < depth && S.has_c[i]) ? CT[i] : NULL;
        K[i].cls_destruct  = (i < depth && S.has_d[i]) ? DT[i] : NULL;
        K[i].cls_initialized = 0; K[i].cls_depth = 0;
        K[i].cls_construct_array = NULL; K[i].cls_destruct_array = NULL;
        K[i].cls_sizeof = sizeof(lvl0_t);
    }
    g_nlog = 0; g_log_wrong_obj = 0;
}

/* specification of the two chains, from the property statement:
 * destructors most derived -> base, constructors base -> most derived, NULL levels skipped */
static int spec_nctor(void) { int n = 0; for (int i = 0; i < MAXD; i++) if (i < S.depth && S.has_c[i]) n++; return n; }
/* does g_log[from..] hold exactly the destructor chain? */
static int log_is_dtor_chain(int from)
{
    int k = from, ok = 1;
    for (int i = 0; i < MAXD; i++)
        if (i < S.depth && S.has_d[i]) { if (k >= LOGN || g_log[k] != ED(i)) ok = 0; k++; }
    return ok && g_nlog == k;
}
static int log_is_ctor_chain(void)
{
    int k = 0, ok = 1;
    for (int i = MAXD - 1; i >= 0; i--)
        if (i < S.depth && S.has_c[i]) { if (k >= LOGN || g_log[k] != EC(i)) ok = 0; k++; }
    return ok && g_nlog == k;
}

/* ghost: what was freed, and how far the destructor log was at that moment */
static void *g_watch;              /* a pointer of interest                              */
static int   g_watch_freed;        /* number of times it was passed to free()            */
static int   g_nlog_at_free;       /* length of the ghost log when that happened         */
static void verif_free(void *p)
{
    if (p != NULL && p == g_watch) { g_watch_freed++; g_nlog_at_free = g_nlog; }
    free(p);
}
static void watch(void *p) { g_watch = p; g_watch_freed = 0; g_nlog_at_free = -1; }

/* ------------------------------------------------------------------ */
/* rely / guarantee hooks                                              */
/* ------------------------------------------------------------------ */
enum { M_OFF = 0, M_CLASSINIT, M_REF };
static int      g_mode;            /* which rely is active                               */
static int      g_in_env;          /* the environment itself is running real code        */
static int      g_env_init;        /* class_init: another thread initialises the class while I wait for the lock */
static int      g_envinit_done;
static lvl0_t  *g_obj;             /* the shared object                                  */
static volatile int32_t *g_cnt;    /* == &g_obj->super.obj_reference_count               */
static int64_t  g_mine, g_others;  /* ghost holdings                                     */
static int      g_env_k;
static int      g_lin;             /* my linearisation points on the count               */
static int32_t  g_before, g_after; /* count just before / after my atomic                */
static int      g_env_freed;       /* the others destroyed the object                    */
static int64_t  g_mine_lin, g_others_lin; /* holdings right after my linearisation point  */

void verif_env_step(int op, volatile void *loc)
{
    if (g_in_env) return;
    if (g_mode == M_CLASSINIT) {
        /* another thread runs the same (real) initialisation between my unlocked test and my lock */
        if (op == V_OP_LOCK && g_env_init && !g_envinit_done) {
            g_in_env = 1; g_envinit_done = 1;
            parsec_class_initialize(&K[0]);
            g_in_env = 0;
        }
        return;
    }
    if (g_mode == M_REF && loc == (volatile void *)g_cnt && !g_env_freed) {
        if (g_env_k < 2) {
            int64_t d = vin.env[g_env_k++];
            /* Rely: holders retain / release; their holdings stay >= 0; nobody acts on a dead object;
             * the 32-bit count does not wrap (fewer than 2^31 references in total)                   */
            V_ASSUME(g_mine + g_others >= 1);
            V_ASSUME(g_others + d >= 0 && g_mine + g_others + d <= INT32_MAX - 1);
            g_others += d;
            *g_cnt = (int32_t)(*g_cnt + d);
        }
        g_before = *g_cnt;
    }
}
void verif_own_step(int op, volatile void *loc, int success)
{
    (void)success;
    if (g_in_env) return;
    if (g_mode == M_REF && op == V_OP_FETCH && loc == (volatile void *)g_cnt) {
        g_lin++;
        g_after = *g_cnt;
        g_mine += (int64_t)g_after - (int64_t)g_before;       /* my own delta (checked by the guar clause) */
        g_mine_lin = g_mine; g_others_lin = g_others;
        /* Rely, continued: once I hold nothing and references remain, the others may drop them all,
         * destroy and free the object before my next instruction */
        if (g_mine == 0 && g_others > 0 && vin.env_kill) {
            g_others = 0;
            g_env_freed = 1;
#ifdef ENV_REUSE        /* the storage is already handed out again: the word of the count holds anything */
            *g_cnt = vin.reuse;
#else                   /* any later access by me is a pointer-check failure */
            free(g_obj);
#endif
        }
    }
}

/* ------------------------------------------------------------------ */
/* wrappers around the macros (the macro text is the real one)         */
/* ------------------------------------------------------------------ */
static int g_rel_calls;
static int g_rel_count_seen;
static int g_rel_wrong_obj;
static void rel_spy(parsec_object_t *o)
{   /* a user-supplied obj_release (PARSEC_OBJ_CONSTRUCT_WRELEASE): records the call, frees the storage */
    g_rel_calls++;
    if (o != g_expect_obj) g_rel_wrong_obj = 1;
    g_rel_count_seen = o->obj_reference_count;
    free(o);
}
static lvl0_t *w_release(lvl0_t *o) { PARSEC_OBJ_RELEASE(o); return o; }
static void    w_retain(lvl0_t *o)  { PARSEC_OBJ_RETAIN(o); }
static lvl0_t *w_new(void)          { return PARSEC_OBJ_NEW(lvl0_t); }
static void    w_construct(lvl0_t *o) { PARSEC_OBJ_CONSTRUCT(o, lvl0_t); }
static void    w_construct_wrelease(lvl0_t *o) { PARSEC_OBJ_CONSTRUCT_WRELEASE(o, lvl0_t, rel_spy); }
static void    w_destruct(lvl0_t *o) { PARSEC_OBJ_DESTRUCT(o); }


/* ================================================================== */
/* 1. parsec_class_initialize (+ parsec_class_finalize)                 */
/* ================================================================== */
static void check_arrays(parsec_class_t *cls)
{
    V_ASSERT(cls->cls_initialized == 1, "C34.parsec_class_initialize.post.marked_initialized");
    V_ASSERT(cls->cls_depth == S.depth + 1, "C34.parsec_class_initialize.post.depth_counts_every_level_up_to_the_base");
    V_ASSERT(cls->cls_construct_array != NULL && cls->cls_destruct_array != NULL,
             "C34.parsec_class_initialize.post.arrays_allocated");
    int nd = 0;
    for (int i = 0; i < MAXD; i++)
        if (i < S.depth && S.has_d[i]) {
            V_ASSERT(cls->cls_destruct_array[nd] == DT[i],
                     "C34.parsec_class_initialize.post.destructor_array_is_nonnull_destructors_most_derived_first");
            nd++;
        }
    V_ASSERT(cls->cls_destruct_array[nd] == NULL, "C34.parsec_class_initialize.post.destructor_array_null_terminated_right_after_last");
    int nc = spec_nctor(), k = nc;
    for (int i = 0; i < MAXD; i++)
        if (i < S.depth && S.has_c[i]) {
            k--;
            V_ASSERT(cls->cls_construct_array[k] == CT[i],
                     "C34.parsec_class_initialize.post.constructor_array_is_nonnull_constructors_base_first");
        }
    V_ASSERT(k == 0, "C34.parsec_class_initialize.post.constructor_array_has_no_gap");
    V_ASSERT(cls->cls_construct_array[nc] == NULL, "C34.parsec_class_initialize.post.constructor_array_null_terminated_right_after_last");
}

void h_class_init(void)
{
    vin_load();
    FOR_EACH_SHAPE(d, cm, dm) for (int ei = 0; ei < 2; ei++) {
        build_hierarchy(d, cm, dm);
        g_mode = M_CLASSINIT; g_in_env = 0; g_envinit_done = 0; g_env_init = ei;
        parsec_class_t *cls = &K[0];
        parsec_construct_t *base_ca = parsec_object_t_class.cls_construct_array;
        parsec_destruct_t  *base_da = parsec_object_t_class.cls_destruct_array;

        parsec_class_initialize(cls);

        check_arrays(cls);
        V_ASSERT(class_lock == PARSEC_ATOMIC_UNLOCKED, "C34.parsec_class_initialize.post.class_lock_released");
        /* initialised exactly once, also when another thread got in between my test and my lock
         * (the arrays already in use by that thread's objects are not replaced) */
        V_ASSERT(num_classes == 1 && classes[0] == (void *)cls->cls_construct_array,
                 "C34.parsec_class_initialize.post.initialised_and_registered_exactly_once");
        for (int i = 1; i < MAXD; i++)
            V_ASSERT(K[i].cls_initialized == 0 && K[i].cls_construct_array == NULL,
                     "C34.parsec_class_initialize.post.parent_classes_untouched");
        V_ASSERT(parsec_object_t_class.cls_construct_array == base_ca && parsec_object_t_class.cls_destruct_array == base_da &&
                 parsec_object_t_class.cls_initialized == 1 && parsec_object_t_class.cls_depth == 0,
                 "C34.parsec_class_initialize.post.base_class_untouched");

        /* idempotent */
        parsec_construct_t *ca = cls->cls_construct_array; parsec_destruct_t *da = cls->cls_destruct_array;
        g_mode = M_OFF;
        parsec_class_initialize(cls);
        V_ASSERT(cls->cls_construct_array == ca && cls->cls_destruct_array == da && num_classes == 1,
                 "C34.parsec_class_initialize.post.idempotent_second_call_changes_nothing");
        check_arrays(cls);

        /* the real finalisation returns the process to its initial state for the next shape */
        watch(ca);
        parsec_class_finalize();
        V_ASSERT(classes == NULL && num_classes == 0 && max_classes == 0, "C34.parsec_class_finalize.post.registry_emptied");
        V_ASSERT(g_watch_freed == 1, "C34.parsec_class_finalize.post.chain_arrays_freed_once");
    }
    V_CANARY("class_init");
}

/* ================================================================== */
/* 2. life cycle without interference: NEW / CONSTRUCT, run_constructors,*/
/*    DESTRUCT / run_destructors, destruct_and_free, RETAIN / RELEASE   */
/* ================================================================== */
static lvl0_t g_static_obj;

static void lifecycle_of(lvl0_t *o, int use_new)
{
    g_expect_obj = &o->super;
    watch(o);
    V_ASSERT(K[0].cls_initialized == 1, "C34.parsec_obj_new.post.class_initialized_on_first_use");
    V_ASSERT(o->super.obj_class == &K[0], "C34.parsec_obj_new.post.class_set");
    V_ASSERT(o->super.obj_reference_count == 1, "C34.parsec_obj_new.post.reference_count_starts_at_1");
    V_ASSERT(log_is_ctor_chain(), "C34.parsec_obj_run_constructors.post.each_nonnull_constructor_once_base_to_most_derived");
    V_ASSERT(!g_log_wrong_obj, "C34.parsec_obj_run_constructors.post.constructors_get_this_object");

    /* a second reference comes and goes: nothing is destroyed */
    int n0 = g_nlog;
    w_retain(o);
    V_ASSERT(o->super.obj_reference_count == 2, "C34.PARSEC_OBJ_RETAIN.post.count_plus_1");
    lvl0_t *p = w_release(o);
    V_ASSERT(p == o && g_watch_freed == 0 && o->super.obj_reference_count == 1 && g_nlog == n0,
             "C34.PARSEC_OBJ_RELEASE.post.not_last_reference_nothing_destroyed_pointer_kept");

    /* the last reference goes: obj_release = parsec_obj_destruct(_and_free) runs */
    p = w_release(o);
    V_ASSERT(p == NULL, "C34.PARSEC_OBJ_RELEASE.post.last_reference_pointer_nulled");
    V_ASSERT(log_is_dtor_chain(n0), "C34.parsec_obj_run_destructors.post.each_nonnull_destructor_once_most_derived_to_base");
    V_ASSERT(!g_log_wrong_obj, "C34.parsec_obj_run_destructors.post.destructors_get_this_object");
    if (use_new) {
        V_ASSERT(g_watch_freed == 1 && g_nlog_at_free == g_nlog,
                 "C34.parsec_obj_destruct_and_free.post.storage_freed_once_after_the_last_destructor");
    } else {
        V_ASSERT(g_watch_freed == 0, "C34.parsec_obj_destruct.post.storage_of_constructed_object_not_freed");
    }
}

void h_lifecycle(void)
{
    vin_load();
    FOR_EACH_SHAPE(d, cm, dm) {
        build_hierarchy(d, cm, dm);
        g_mode = M_OFF;
        /* (i) heap object: PARSEC_OBJ_NEW, first use of the class */
        g_expect_obj = NULL;                     /* not known before the allocation */
        lvl0_t *o = w_new();
        V_ASSUME(o != NULL);
        g_log_wrong_obj = 0;
        V_ASSERT(o->super.obj_release == &parsec_obj_destruct_and_free, "C34.parsec_obj_new.post.release_is_destruct_and_free");
        lifecycle_of(o, 1);
        /* (ii) object in static storage: PARSEC_OBJ_CONSTRUCT, class already initialised */
        parsec_construct_t *ca = K[0].cls_construct_array;
        o = &g_static_obj;
        g_expect_obj = &o->super; g_nlog = 0; g_log_wrong_obj = 0;
        w_construct(o);
        V_ASSERT(o->super.obj_release == &parsec_obj_destruct, "C34.PARSEC_OBJ_CONSTRUCT.post.release_is_destruct_only");
        V_ASSERT(K[0].cls_construct_array == ca && num_classes == 1, "C34.PARSEC_OBJ_CONSTRUCT.post.initialised_class_not_initialised_again");
        lifecycle_of(o, 0);
        /* (iii) explicit PARSEC_OBJ_DESTRUCT of a re-constructed object: again exactly one chain each */
        g_nlog = 0;
        w_construct(o);
        V_ASSERT(log_is_ctor_chain() && o->super.obj_reference_count == 1, "C34.PARSEC_OBJ_CONSTRUCT.post.reconstruct_runs_chain_again_count_1");
        g_nlog = 0;
        w_destruct(o);
        V_ASSERT(log_is_dtor_chain(0) && !g_log_wrong_obj, "C34.PARSEC_OBJ_DESTRUCT.post.each_nonnull_destructor_once_most_derived_to_base");
        parsec_class_finalize();
    }
    V_CANARY("lifecycle");
}

/* ================================================================== */
/* 3. function-level contract of RELEASE / RETAIN / parsec_obj_update   */
/*    for EVERY 32-bit count (no interference); class-independent       */
/* ================================================================== */
static lvl0_t *make_spied_object(void)
{   /* pre-state: any live heap object whose obj_release is the spy (what CONSTRUCT_WRELEASE installs: checked in h_update_seq) */
    lvl0_t *o = (lvl0_t *)malloc(sizeof(lvl0_t));
    V_ASSUME(o != NULL);
    o->super.obj_class = &K[0];
    o->super.obj_reference_count = 1;
    o->super.obj_release = rel_spy;
    g_expect_obj = &o->super;
    g_nlog = 0; g_rel_calls = 0; g_rel_wrong_obj = 0;
    return o;
}

void h_update_seq(void)
{
    vin_load();
    g_mode = M_OFF;
    {   /* the pre-state used below is what the real macro produces */
        build_hierarchy(1, 1, 1);
        lvl0_t *q = (lvl0_t *)malloc(sizeof(lvl0_t));
        V_ASSUME(q != NULL);
        w_construct_wrelease(q);
        V_ASSERT(q->super.obj_release == &rel_spy && q->super.obj_reference_count == 1 && q->super.obj_class == &K[0],
                 "C34.PARSEC_OBJ_CONSTRUCT_WRELEASE.post.release_function_installed_count_1");
        free(q);
        parsec_class_finalize();
    }
    lvl0_t *o = make_spied_object();

    o->super.obj_reference_count = vin.count0;
    int r = parsec_obj_update(&o->super, 1);
    V_ASSERT(o->super.obj_reference_count == (int32_t)((uint32_t)vin.count0 + 1u), "C34.parsec_obj_update.post.count_changed_by_inc");
    V_ASSERT(r == o->super.obj_reference_count, "C34.parsec_obj_update.post.returns_the_new_value_of_its_own_update");
    r = parsec_obj_update(&o->super, -1);
    V_ASSERT(o->super.obj_reference_count == vin.count0 && r == vin.count0, "C34.parsec_obj_update.post.minus_1_returns_new_value");

    lvl0_t *p = w_release(o);
    int32_t newv = (int32_t)((uint32_t)vin.count0 - 1u);
    V_ASSERT(V_IFF(g_rel_calls == 1, newv == 0), "C34.PARSEC_OBJ_RELEASE.post.obj_release_called_iff_own_update_returned_0");
    V_ASSERT(g_rel_calls <= 1, "C34.PARSEC_OBJ_RELEASE.post.obj_release_called_at_most_once");
    V_ASSERT(!g_rel_wrong_obj, "C34.PARSEC_OBJ_RELEASE.post.obj_release_gets_this_object");
    V_ASSERT(V_IFF(p == NULL, newv == 0), "C34.PARSEC_OBJ_RELEASE.post.pointer_nulled_iff_released");
    if (newv == 0) {
        V_ASSERT(g_rel_count_seen == 0, "C34.PARSEC_OBJ_RELEASE.post.released_only_with_count_0");
    } else if (g_rel_calls == 0) {      /* (the harness itself must not touch an object the spy has freed) */
        V_ASSERT(o->super.obj_reference_count == newv, "C34.PARSEC_OBJ_RELEASE.post.count_minus_1");
    }
    V_CANARY("update_seq");
}

/* ================================================================== */
/* 4. RELEASE / RETAIN under interference (rely/guarantee)              */
/* ================================================================== */
static lvl0_t *rg_setup(void)
{
    vin_load();
    g_mode = M_OFF;
    lvl0_t *o = make_spied_object();
    /* PRE: I hold a reference; Inv: count == mine + others; no wrap */
    V_ASSUME(vin.mine0 >= 1 && vin.others0 >= 0 && (int64_t)vin.mine0 + vin.others0 <= INT32_MAX - 1);
    g_mine = vin.mine0; g_others = vin.others0;
    o->super.obj_reference_count = (int32_t)(g_mine + g_others);
    g_obj = o; g_cnt = &o->super.obj_reference_count;
    g_env_k = 0; g_lin = 0; g_env_freed = 0;
    g_mode = M_REF;
    return o;
}

void h_release_rg(void)
{
    lvl0_t *o = rg_setup();
    lvl0_t *p = w_release(o);          /* pointer-check: no access to *o after my step unless I was the last */
    g_mode = M_OFF;

    V_ASSERT(g_lin == 1, "C34.PARSEC_OBJ_RELEASE.guar.exactly_one_atomic_step_on_the_count");
    V_ASSERT((int64_t)g_after == (int64_t)g_before - 1, "C34.PARSEC_OBJ_RELEASE.guar.own_step_is_minus_1");
    int last = (g_mine_lin == 0 && g_others_lin == 0);   /* right after my step nobody holds a reference */
    V_ASSERT(V_IFF(g_after == 0, last), "C34.PARSEC_OBJ_RELEASE.inv.count_0_at_my_step_iff_i_held_the_last_reference");
    V_ASSERT(V_IFF(g_rel_calls == 1, last), "C34.PARSEC_OBJ_RELEASE.post.destroys_iff_own_step_took_count_to_0");
    V_ASSERT(g_rel_calls <= 1, "C34.PARSEC_OBJ_RELEASE.post.destroys_at_most_once");
    V_ASSERT(!g_rel_wrong_obj, "C34.PARSEC_OBJ_RELEASE.post.destroys_this_object");
    V_ASSERT(V_IFF(p == NULL, last), "C34.PARSEC_OBJ_RELEASE.post.pointer_nulled_iff_destroyed");
    if (last) {
        V_ASSERT(g_rel_count_seen == 0 && !g_env_freed, "C34.PARSEC_OBJ_RELEASE.post.destroyed_only_with_count_0");
    } else if (!g_env_freed && g_rel_calls == 0) {
        V_ASSERT((int64_t)o->super.obj_reference_count == g_mine + g_others && g_mine == (int64_t)vin.mine0 - 1,
                 "C34.PARSEC_OBJ_RELEASE.inv.count_equals_references_held");
    }
    V_CANARY("release_rg");
}

void h_retain_rg(void)
{
    lvl0_t *o = rg_setup();
    w_retain(o);
    g_mode = M_OFF;
    V_ASSERT(g_lin == 1, "C34.PARSEC_OBJ_RETAIN.guar.exactly_one_atomic_step_on_the_count");
    V_ASSERT((int64_t)g_after == (int64_t)g_before + 1, "C34.PARSEC_OBJ_RETAIN.guar.own_step_is_plus_1");
    V_ASSERT(g_rel_calls == 0 && !g_env_freed, "C34.PARSEC_OBJ_RETAIN.post.nothing_destroyed");
    if (g_rel_calls == 0 && !g_env_freed) {
        V_ASSERT((int64_t)o->super.obj_reference_count == g_mine + g_others && g_mine == (int64_t)vin.mine0 + 1,
                 "C34.PARSEC_OBJ_RETAIN.inv.count_equals_references_held");
        V_ASSERT(o->super.obj_reference_count >= 2, "C34.PARSEC_OBJ_RETAIN.post.count_at_least_my_two_references");
    }
    V_CANARY("retain_rg");
}

/* ================================================================== */
/* 5. lemma: composition of the per-thread contracts along any          */
/*    linearisation (pure arithmetic over all 32-bit values)            */
/* ================================================================== */
struct { int32_t cnt, mine, others, mine2; } lin;
void h_lemma(void)
{
    __typeof__(lin) t; lin = t;
    int64_t cnt = lin.cnt, mine = lin.mine, others = lin.others;
    /* Inv of a live object; `mine` = holdings of the thread that acts now */
    V_ASSUME(mine >= 0 && others >= 0 && cnt == mine + others && cnt <= INT32_MAX - 1);
    /* (a) with PRE "caller holds a reference" the count cannot be 0, hence no step of anybody else
     *     (a release by a holder among `others`) can observe 1 -> 0 while I hold mine */
    V_ASSERT(V_IMPLIES(mine >= 1, cnt >= 1), "C34.lemma.count_positive_while_a_reference_is_held");
    V_ASSERT(V_IMPLIES(mine >= 1 && others >= 1, cnt - 1 != 0), "C34.lemma.release_by_another_holder_cannot_reach_0_while_i_hold_one");
    /* (b) a release by a holder (contract of section 4: count-1, destroys iff new value 0) keeps Inv and
     *     destroys iff no reference is left at all */
    V_ASSUME(mine >= 1);
    int64_t cnt1 = cnt - 1, mine1 = mine - 1;
    int destroyed1 = (cnt1 == 0);
    V_ASSERT(cnt1 == mine1 + others && cnt1 >= 0, "C34.lemma.release_preserves_count_equals_holdings");
    V_ASSERT(V_IFF(destroyed1, mine1 == 0 && others == 0), "C34.lemma.destroyed_iff_no_reference_left");
    /* (c) at most one release observes 0: after a destroying release nobody holds a reference, so the PRE of
     *     any later RETAIN/RELEASE (holdings >= 1 of the acting thread, part of `others` or of `mine1`) is false */
    int64_t mine2 = lin.mine2;                      /* holdings of whichever thread acts next */
    V_ASSUME(mine2 >= 0 && (mine2 <= others || mine2 <= mine1));
    V_ASSERT(V_IMPLIES(destroyed1, mine2 == 0), "C34.lemma.after_the_destroying_release_no_thread_can_act_again");
    V_CANARY("lemma");
}

/* ================================================================== */
/* 6. bounded cross-check on whole histories: NTHR threads, NOPS        */
/*    linearised RETAIN/RELEASE operations of the real code on a real   */
/*    PARSEC_OBJ_NEW object (hierarchies of depth 1..4, all levels with */
/*    constructor and destructor)                                       */
/* ================================================================== */
void h_history(void)
{
    vin_load();
    g_mode = M_OFF;
    for (int d = DEPTH_LO; d <= DEPTH_HI; d++) {
        build_hierarchy(d, (1 << d) - 1, (1 << d) - 1);
        g_expect_obj = NULL;
        lvl0_t *o = w_new();
        V_ASSUME(o != NULL);
        g_expect_obj = &o->super; g_log_wrong_obj = 0; g_nlog = 0;
        watch(o);
        lvl0_t *held[NTHR];                 /* each thread's own pointer variable */
        int refs[NTHR], total = 1;
        for (int t = 0; t < NTHR; t++) { refs[t] = 0; held[t] = o; }
        refs[0] = 1;                        /* the creator */
        for (int k = 0; k < NOPS; k++) {
            V_ASSUME(vin.op_thr[k] < NTHR);
            if (total == 0) break;          /* Rely: nobody holds a reference, nobody acts */
            /* explicit case split on (thread, operation): with --paths every history is executed on its own,
             * with concrete control flow (indirect calls through symbolic function pointers do not scale) */
            int t;
            if (vin.op_thr[k] == 0) t = 0; else if (vin.op_thr[k] == 1) t = 1; else t = 2;
            if (vin.op_rel[k]) {
                V_ASSUME(refs[t] >= 1);     /* PRE */
                held[t] = w_release(held[t]);
                refs[t]--; total--;
                V_ASSERT(V_IFF(held[t] == NULL, total == 0), "C34.history.pointer_nulled_iff_last_reference");
                if (total > 0) held[t] = o; /* ghost: a thread that is lent a reference later uses the lender's pointer */
            } else {
                V_ASSUME(total >= 1);       /* PRE: a reference (own or lent) is held during the call */
                w_retain(held[t]);
                refs[t]++; total++;
            }
            V_ASSERT(V_IMPLIES(total > 0, g_nlog == 0 && g_watch_freed == 0 && o->super.obj_reference_count == total),
                     "C34.history.no_destructor_while_references_remain_and_count_equals_holdings");
            V_ASSERT(V_IMPLIES(total == 0, log_is_dtor_chain(0) && !g_log_wrong_obj && g_watch_freed == 1 && g_nlog_at_free == g_nlog),
                     "C34.history.destructor_chain_exactly_once_in_order_then_freed");
            if (g_watch_freed) break;       /* (on the unchanged tree this is total == 0) */
        }
        parsec_class_finalize();
    }
    V_CANARY("history");
}
