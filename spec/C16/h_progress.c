/* C16 (part 1): a task whose body asks to be re-run (PARSEC_HOOK_RETURN_AGAIN) is handed back to the
 * scheduler exactly once and is neither completed nor lost; a body that reports DONE is completed and
 * released exactly once; ASYNC leaves the task alone.
 *
 * Contracts on the REAL parsec/scheduling.c (included verbatim): __parsec_task_progress,
 * __parsec_execute, __parsec_complete_execution, __parsec_schedule.
 *
 * What is stubbed (everything the three functions reach through function pointers or in other files):
 *   task class hooks prepare_input / incarnations[].hook / prepare_output / complete_execution /
 *   release_task : harness functions, count their calls, remember the order (g_seq), answer with codes
 *   taken from vin;  when a hook answers ASYNC the stub frees the task ("outside our reach": any later
 *   access by the code under contract is a pointer-check failure);
 *   parsec_current_scheduler->module.schedule : records (es, ring, distance) and the state of the task
 *   at that instant (singleton?, status, priority);
 *   parsec_select_best_device (mca/device/device.c): keeps an earlier selection, else picks the chore /
 *   device given by vin, or fails;
 *   parsec_pins_instrument, parsec_my_execution_stream, parsec_output,
 *   *parsec_weaksym_exit (= process exit: the path ends there), parsec_mca_device_is_gpu.
 */
#include "verif.h"
#include "parsec/parsec_config.h"
#include "parsec/parsec_internal.h"
#include "parsec/scheduling.c"

#ifndef KMAX
#define KMAX 6                 /* h_rerun: number of passes of the task through __parsec_task_progress */
#endif
#define NCHORES 2

struct vin {
    uint8_t  status0;              /* task->status when the task is picked up                        */
    int32_t  prio0;                /* task->priority                                                 */
    int32_t  distance;
    int32_t  pi_rc[KMAX];          /* answers of prepare_input, one per pass                         */
    int32_t  hook_rc[KMAX];        /* answers of the body, one per pass                              */
    uint8_t  sel_fail[KMAX];       /* parsec_select_best_device fails on that pass                   */
    uint8_t  chore;                /* incarnation chosen by the device selection                     */
    uint8_t  dev_type;             /* type of the selected device                                    */
    uint8_t  preselected;          /* task->selected_device already set on entry                     */
    int32_t  load;                 /* task->load computed by the selection                           */
    int64_t  dev_load0;
    uint64_t executed0;
    uint8_t  has_prepare_output, has_complete_execution;
    int32_t  complete_rc, release_rc, prepout_rc, sched_rc;
    uint8_t  ln_sel, lp_sel;       /* stale list links of the task: 0 self, 1 another item, 2 NULL   */
    uint8_t  nb_flows;             /* flows of the class (all without input data here)               */
    uint8_t  flow_in[2];
} vin;
#include "verif_vin.h"

/* ------------------------------------------------------------------ ghost state */
static int g_seq;                                  /* global order of the stub calls              */
static int g_n_pi, g_n_hook, g_n_prepout, g_n_complete, g_n_release, g_n_sched, g_n_select, g_n_exit;
static int g_seq_pi, g_seq_hook, g_seq_prepout, g_seq_complete, g_seq_release, g_seq_sched, g_seq_select;
static int g_hook_chore;                           /* which incarnation's hook ran                */
static int g_args_ok;                              /* every stub received (es, task)              */
static int g_round;                                /* pass number (index into vin.*_rc)           */
static int g_async;                                /* the task was taken over asynchronously      */
static int g_last_rc;                              /* last answer of a hook or of the selection   */
static int g_last_rc_valid;
static uint8_t g_status_at_hook_entry, g_status_after_hook;
/* snapshot taken by the scheduler stub */
static parsec_execution_stream_t *g_sched_es;
static parsec_task_t *g_sched_ring;
static int32_t g_sched_distance;
static int g_sched_singleton;
static uint8_t g_sched_status;
static int32_t g_sched_prio;
static int g_sched_after_completion;               /* a schedule call arrived after complete/release */
static int g_in_scheduler;                         /* h_rerun: copies of the task held by the scheduler */

static parsec_execution_stream_t es;
static parsec_task_t *task;
static parsec_list_item_t other_item;
static parsec_task_class_t tc;
static __parsec_chore_t chores[NCHORES + 1];
static parsec_device_module_t dev;
static parsec_sched_module_t sched;
static parsec_flow_t flow0, flow1;

static void took_over_async(parsec_task_t *t)
{
    g_async = 1;
#ifndef VERIF_REPLAY
    free(t);                    /* the task now belongs to somebody else: it must not be touched */
#else
    (void)t;
#endif
}
#define CHECK_ARGS(e, t) do { if ((e) != &es || (t) != task) g_args_ok = 0; } while (0)

static int stub_prepare_input(parsec_execution_stream_t *e, parsec_task_t *t)
{
    CHECK_ARGS(e, t);
    g_n_pi++; g_seq_pi = ++g_seq;
    int rc = vin.pi_rc[g_round];
    g_last_rc = rc; g_last_rc_valid = 1;
    if (rc == PARSEC_HOOK_RETURN_ASYNC) took_over_async(t);
    return rc;
}
static int hook_common(parsec_execution_stream_t *e, parsec_task_t *t, int which)
{
    CHECK_ARGS(e, t);
    g_n_hook++; g_seq_hook = ++g_seq; g_hook_chore = which;
    g_status_at_hook_entry = t->status;
    int rc = vin.hook_rc[g_round];
    g_last_rc = rc; g_last_rc_valid = 1;
    if (rc == PARSEC_HOOK_RETURN_ASYNC) took_over_async(t);
    else g_status_after_hook = t->status;
    return rc;
}
static int stub_hook0(parsec_execution_stream_t *e, parsec_task_t *t) { return hook_common(e, t, 0); }
static int stub_hook1(parsec_execution_stream_t *e, parsec_task_t *t) { return hook_common(e, t, 1); }
static int stub_prepare_output(parsec_execution_stream_t *e, parsec_task_t *t)
{
    CHECK_ARGS(e, t);
    g_n_prepout++; g_seq_prepout = ++g_seq;
    return vin.prepout_rc;
}
static int stub_complete_execution(parsec_execution_stream_t *e, parsec_task_t *t)
{
    CHECK_ARGS(e, t);
    g_n_complete++; g_seq_complete = ++g_seq;      /* stands for release_deps: successors released here */
    return vin.complete_rc;
}
static int stub_release_task(parsec_execution_stream_t *e, parsec_task_t *t)
{
    CHECK_ARGS(e, t);
    g_n_release++; g_seq_release = ++g_seq;
    return vin.release_rc;
}
static int stub_schedule(parsec_execution_stream_t *e, parsec_task_t *ring, int32_t distance)
{
    g_n_sched++; g_seq_sched = ++g_seq;
    if (g_n_complete || g_n_release || g_async) g_sched_after_completion = 1;
    g_sched_es = e; g_sched_ring = ring; g_sched_distance = distance;
    if (!g_async && ring == task) {
        g_sched_singleton = (ring->super.list_next == &ring->super && ring->super.list_prev == &ring->super);
        g_sched_status = ring->status;
        g_sched_prio = ring->priority;
        g_in_scheduler++;
    }
    return vin.sched_rc;
}

/* ---- externals of scheduling.c ---- */
int parsec_select_best_device(parsec_task_t *t)
{
    g_n_select++; g_seq_select = ++g_seq;
    if (t != task) g_args_ok = 0;
    if (vin.sel_fail[g_round]) { g_last_rc = PARSEC_HOOK_RETURN_ERROR; g_last_rc_valid = 1; return PARSEC_ERROR; }
    if (NULL == t->selected_device) {           /* an earlier choice is kept (AGAIN / ASYNC re-entry) */
        t->selected_device = &dev;
        t->selected_chore = vin.chore;
        t->load = vin.load;
    }
    return PARSEC_SUCCESS;
}
void parsec_pins_instrument(struct parsec_execution_stream_s *e, PARSEC_PINS_FLAG f, struct parsec_task_s *t)
{ (void)e; (void)f; (void)t; }
parsec_execution_stream_t *parsec_my_execution_stream(void) { return &es; }
#ifndef VERIF_REPLAY
void parsec_output(int id, const char *fmt, ...) { (void)id; (void)fmt; }
int parsec_mca_device_is_gpu(int idx) { (void)idx; return 0; }
pid_t getpid(void) { return 1; }
#endif
static void stub_exit(int status)
{
    (void)status;
    g_n_exit++;
    /* the process ends here: allowed only when a body / the device selection reported an error code */
    V_ASSERT(g_last_rc_valid && g_last_rc != PARSEC_HOOK_RETURN_DONE && g_last_rc != PARSEC_HOOK_RETURN_AGAIN &&
             g_last_rc != PARSEC_HOOK_RETURN_ASYNC, "C16.task_progress.post.fatal_exit_only_on_error_code");
#ifdef VERIF_REPLAY
    printf("REPLAY: parsec_fatal reached\n"); exit(0);
#else
    __CPROVER_assume(0);
#endif
}
#ifndef VERIF_REPLAY
void (*parsec_weaksym_exit)(int status) = stub_exit;
#endif

static parsec_list_item_t *link_of(uint8_t sel)
{
    return sel == 0 ? &task->super : sel == 1 ? &other_item : NULL;
}

static void build(void)
{
    task = (parsec_task_t *)malloc(sizeof(parsec_task_t));
#ifdef VERIF_REPLAY
    memset(task, 0, sizeof(*task));
    parsec_weaksym_exit = stub_exit;
#endif
    V_ASSUME(vin.chore < NCHORES);
    V_ASSUME(vin.nb_flows <= 2);
    chores[0].type = PARSEC_DEV_CPU;  chores[0].hook = stub_hook0; chores[0].evaluate = NULL;
    chores[1].type = PARSEC_DEV_CUDA; chores[1].hook = stub_hook1; chores[1].evaluate = NULL;
    chores[2].type = PARSEC_DEV_NONE; chores[2].hook = NULL;       chores[2].evaluate = NULL;
    tc.name = "T";
    tc.nb_flows = vin.nb_flows;
    tc.in[0] = vin.flow_in[0] ? &flow0 : NULL;
    tc.in[1] = vin.flow_in[1] ? &flow1 : NULL;
    tc.prepare_input = stub_prepare_input;
    tc.incarnations = chores;
    tc.prepare_output = vin.has_prepare_output ? stub_prepare_output : NULL;
    tc.complete_execution = vin.has_complete_execution ? stub_complete_execution : NULL;
    tc.release_task = stub_release_task;
    dev.type = vin.dev_type; dev.device_load = vin.dev_load0; dev.executed_tasks = vin.executed0;
    sched.module.schedule = stub_schedule;
    parsec_current_scheduler = &sched;
    task->task_class = &tc;
    task->status = vin.status0;
    task->priority = vin.prio0;
    task->super.list_next = link_of(vin.ln_sel);
    task->super.list_prev = link_of(vin.lp_sel);
    task->data[0].data_in = NULL; task->data[1].data_in = NULL;
    if (vin.preselected) { task->selected_device = &dev; task->selected_chore = vin.chore; task->load = vin.load; }
    else { task->selected_device = NULL; task->selected_chore = 0; task->load = 0; }
    g_seq = 0; g_args_ok = 1; g_round = 0; g_async = 0; g_last_rc_valid = 0; g_in_scheduler = 0;
    g_n_pi = g_n_hook = g_n_prepout = g_n_complete = g_n_release = g_n_sched = g_n_select = g_n_exit = 0;
    g_sched_after_completion = 0;
}

static int32_t demoted(int32_t p)
{
    /* "demote" as coded: 0 becomes the constant SET_LOWEST_PRIORITY stores, anything else is divided by 10 */
    int32_t lowest;
    {   /* read the constant from the real macro */
        struct { int v; } probe; probe.v = 12345;
        SET_LOWEST_PRIORITY(&probe, 0);
        lowest = probe.v;
    }
    return p == 0 ? lowest : p / 10;
}

#define VALID_PI_RC(rc) ((rc) == PARSEC_HOOK_RETURN_DONE || (rc) == PARSEC_HOOK_RETURN_AGAIN || (rc) == PARSEC_HOOK_RETURN_ASYNC)

/* ------------------------------------------------------------------ */
/* contract of __parsec_task_progress: one pass, arbitrary task state   */
/* ------------------------------------------------------------------ */
void h_progress(void)
{
    vin_load();
    build();
    /* PRE: prepare_input answers DONE / AGAIN / ASYNC (the code's own assert(0) on anything else);
     * distance + 1 does not overflow; the body may answer ANY code */
    V_ASSUME(VALID_PI_RC(vin.pi_rc[0]));
    V_ASSUME(vin.distance >= 0 && vin.distance < 0x7fffffff);
    int runs_pi   = vin.status0 <= PARSEC_TASK_STATUS_PREPARE_INPUT;
    int pi_rc     = runs_pi ? vin.pi_rc[0] : PARSEC_HOOK_RETURN_DONE;
    int runs_body = pi_rc == PARSEC_HOOK_RETURN_DONE && vin.status0 <= PARSEC_TASK_STATUS_HOOK;
    int body_rc   = !runs_body ? PARSEC_HOOK_RETURN_DONE :
                    vin.sel_fail[0] ? PARSEC_HOOK_RETURN_ERROR : vin.hook_rc[0];
    int again_pi  = pi_rc == PARSEC_HOOK_RETURN_AGAIN;
    int async     = pi_rc == PARSEC_HOOK_RETURN_ASYNC || (pi_rc == PARSEC_HOOK_RETURN_DONE && body_rc == PARSEC_HOOK_RETURN_ASYNC);
    int again_hk  = pi_rc == PARSEC_HOOK_RETURN_DONE && body_rc == PARSEC_HOOK_RETURN_AGAIN;
    int done      = pi_rc == PARSEC_HOOK_RETURN_DONE && body_rc == PARSEC_HOOK_RETURN_DONE;

    int rc = __parsec_task_progress(&es, task, vin.distance);

    /* reaching this point means the process did not exit through parsec_fatal */
    V_ASSERT(done || again_pi || again_hk || async, "C16.task_progress.post.error_code_of_body_is_fatal_not_silently_dropped");
    V_ASSERT(g_args_ok, "C16.task_progress.post.hooks_receive_this_es_and_this_task");
    /* which hooks ran */
    V_ASSERT(g_n_pi == (runs_pi ? 1 : 0), "C16.task_progress.post.prepare_input_once_iff_status_le_PREPARE_INPUT");
    V_ASSERT(V_IMPLIES(vin.status0 == PARSEC_TASK_STATUS_HOOK, g_n_pi == 0), "C16.task_progress.post.status_HOOK_skips_prepare_input_on_rerun");
    V_ASSERT(V_IMPLIES(pi_rc != PARSEC_HOOK_RETURN_DONE, g_n_hook == 0 && g_n_select == 0),
             "C16.task_progress.post.body_not_invoked_when_prepare_input_not_DONE");
    V_ASSERT(g_n_hook == ((runs_body && !vin.sel_fail[0]) ? 1 : 0), "C16.task_progress.post.body_invoked_exactly_once_iff_status_le_HOOK");
    V_ASSERT(V_IMPLIES(vin.status0 == PARSEC_TASK_STATUS_HOOK && !vin.sel_fail[0], g_n_hook == 1),
             "C16.task_progress.post.status_HOOK_reruns_the_body");
    V_ASSERT(V_IMPLIES(g_n_pi && g_n_hook, g_seq_pi < g_seq_hook), "C16.task_progress.post.prepare_input_before_body");
    /* exactly one of the three outcomes */
    V_ASSERT((g_n_release == 1) + (g_n_sched == 1) + (g_async != 0) == 1 && g_n_release <= 1 && g_n_sched <= 1,
             "C16.task_progress.post.exactly_one_of_completed_rescheduled_async");
    if (done) {
        V_ASSERT(g_n_release == 1, "C16.task_progress.post.DONE_releases_task_exactly_once");
        V_ASSERT(g_n_complete == (vin.has_complete_execution ? 1 : 0), "C16.task_progress.post.DONE_completes_exactly_once");
        V_ASSERT(g_n_prepout == (vin.has_prepare_output ? 1 : 0), "C16.task_progress.post.DONE_prepares_output_exactly_once");
        V_ASSERT(g_n_sched == 0, "C16.task_progress.post.DONE_no_reschedule");
        V_ASSERT(V_IMPLIES(g_n_hook, g_seq_hook < g_seq_release) && V_IMPLIES(g_n_complete, g_seq_complete < g_seq_release) &&
                 V_IMPLIES(g_n_complete && g_n_hook, g_seq_hook < g_seq_complete) &&
                 V_IMPLIES(g_n_prepout && g_n_complete, g_seq_prepout < g_seq_complete),
                 "C16.task_progress.post.DONE_order_body_prepare_output_complete_release");
        V_ASSERT(rc == PARSEC_HOOK_RETURN_DONE, "C16.task_progress.post.DONE_returned");
    }
    if (again_pi || again_hk) {
        V_ASSERT(g_n_complete == 0 && g_n_release == 0 && g_n_prepout == 0, "C16.task_progress.post.AGAIN_not_completed_not_released");
        V_ASSERT(g_n_sched == 1, "C16.task_progress.post.AGAIN_handed_to_scheduler_exactly_once");
        V_ASSERT(g_sched_ring == task && g_sched_es == &es, "C16.task_progress.post.AGAIN_reschedules_this_task_on_this_es");
        V_ASSERT(g_sched_distance == vin.distance + 1, "C16.task_progress.post.AGAIN_distance_plus_one");
        V_ASSERT(g_sched_singleton, "C16.task_progress.post.AGAIN_task_is_singleton_ring_when_scheduled");
        V_ASSERT(g_sched_prio == demoted(vin.prio0), "C16.task_progress.post.AGAIN_priority_demoted_as_coded");
        V_ASSERT(!g_sched_after_completion, "C16.task_progress.post.AGAIN_no_schedule_after_completion");
        V_ASSERT(rc == PARSEC_HOOK_RETURN_AGAIN, "C16.task_progress.post.AGAIN_returned");
    }
    if (again_hk) {
        V_ASSERT(g_sched_status == PARSEC_TASK_STATUS_HOOK, "C16.task_progress.post.AGAIN_from_body_leaves_status_HOOK");
        V_ASSERT(g_seq_hook < g_seq_sched, "C16.task_progress.post.AGAIN_scheduled_after_body_returned");
    }
    if (again_pi) {
        V_ASSERT(g_sched_status == vin.status0, "C16.task_progress.post.AGAIN_from_prepare_input_keeps_status");
    }
    if (async) {
        V_ASSERT(g_n_complete == 0 && g_n_release == 0 && g_n_prepout == 0 && g_n_sched == 0,
                 "C16.task_progress.post.ASYNC_neither_completed_nor_rescheduled");
        V_ASSERT(rc == PARSEC_HOOK_RETURN_ASYNC, "C16.task_progress.post.ASYNC_returned");
        /* (that the task is not touched after an ASYNC answer is checked by the pointer checks: the stub freed it) */
    }
    V_CANARY("progress");
}

/* ------------------------------------------------------------------ */
/* contract of __parsec_execute                                         */
/* ------------------------------------------------------------------ */
void h_execute(void)
{
    vin_load();
    build();
    V_ASSUME(vin.status0 <= PARSEC_TASK_STATUS_HOOK);
    int gpu = PARSEC_DEV_IS_GPU(vin.dev_type);
    int rc = __parsec_execute(&es, task);
    V_ASSERT(g_n_select == 1, "C16.execute.post.device_selection_once");
    if (vin.sel_fail[0]) {
        V_ASSERT(rc == PARSEC_HOOK_RETURN_ERROR && g_n_hook == 0, "C16.execute.post.no_device_no_body_ERROR");
    } else {
        V_ASSERT(g_n_hook == 1 && g_args_ok, "C16.execute.post.body_invoked_exactly_once_with_es_task");
        V_ASSERT(g_hook_chore == vin.chore, "C16.execute.post.body_of_the_selected_incarnation");
        V_ASSERT(g_seq_select < g_seq_hook, "C16.execute.post.selection_before_body");
        V_ASSERT(rc == vin.hook_rc[0], "C16.execute.post.returns_answer_of_body");
        V_ASSERT(g_status_at_hook_entry == vin.status0, "C16.execute.post.status_untouched_before_body");
        if (rc != PARSEC_HOOK_RETURN_ASYNC) {
            V_ASSERT(task->status == PARSEC_TASK_STATUS_COMPLETE, "C16.execute.post.status_COMPLETE_unless_ASYNC");
            V_ASSERT(dev.executed_tasks == vin.executed0 + (gpu ? 0 : 1), "C16.execute.post.cpu_device_counts_executed_task");
        } else {
            V_ASSERT(dev.executed_tasks == vin.executed0, "C16.execute.post.ASYNC_not_counted");
        }
        V_ASSERT(dev.device_load == vin.dev_load0 + (gpu ? (int64_t)vin.load : 0), "C16.execute.post.gpu_load_added_once");
    }
    V_ASSERT(g_n_sched == 0 && g_n_complete == 0 && g_n_release == 0 && g_n_pi == 0, "C16.execute.post.nothing_else_invoked");
    V_CANARY("execute");
}

/* ------------------------------------------------------------------ */
/* contract of __parsec_complete_execution                              */
/* ------------------------------------------------------------------ */
void h_complete(void)
{
    vin_load();
    build();
    int gpu = vin.preselected && PARSEC_DEV_IS_GPU(vin.dev_type);
    int rc = __parsec_complete_execution(&es, task);
    V_ASSERT(g_args_ok, "C16.complete_execution.post.hooks_receive_this_es_and_this_task");
    V_ASSERT(g_n_release == 1, "C16.complete_execution.post.release_task_exactly_once");
    V_ASSERT(g_n_complete == (vin.has_complete_execution ? 1 : 0), "C16.complete_execution.post.complete_execution_exactly_once");
    V_ASSERT(g_n_prepout == (vin.has_prepare_output ? 1 : 0), "C16.complete_execution.post.prepare_output_exactly_once");
    V_ASSERT(V_IMPLIES(g_n_prepout && g_n_complete, g_seq_prepout < g_seq_complete) &&
             V_IMPLIES(g_n_complete, g_seq_complete < g_seq_release) && V_IMPLIES(g_n_prepout, g_seq_prepout < g_seq_release),
             "C16.complete_execution.post.order_prepare_output_complete_release");
    V_ASSERT(rc == (vin.has_complete_execution ? vin.complete_rc : 0), "C16.complete_execution.post.returns_answer_of_complete_execution");
    V_ASSERT(dev.device_load == vin.dev_load0 - (gpu ? (int64_t)vin.load : 0), "C16.complete_execution.post.gpu_load_removed_once");
    V_ASSERT(g_n_sched == 0 && g_n_hook == 0 && g_n_pi == 0 && g_n_select == 0, "C16.complete_execution.post.nothing_else_invoked");
    V_CANARY("complete");
}

/* ------------------------------------------------------------------ */
/* composition: the task goes through __parsec_task_progress again and */
/* again (at most KMAX passes: bounded stand-in for the induction on    */
/* the number of AGAIN answers)                                         */
/* ------------------------------------------------------------------ */
void h_rerun(void)
{
    vin_load();
    build();
    V_ASSUME(vin.status0 == PARSEC_TASK_STATUS_NONE || vin.status0 == PARSEC_TASK_STATUS_HOOK);
    V_ASSUME(vin.distance >= 0 && vin.distance < 1000);
    int n_again_pi = 0, n_again_hk = 0, finished = 0, pi_after_body = 0, k;
    int distance = vin.distance;
    g_in_scheduler = 1;                            /* the task sits in the scheduler once */
    for (k = 0; k < KMAX; k++) {
        V_ASSUME(VALID_PI_RC(vin.pi_rc[k]));
        V_ASSUME(!vin.sel_fail[k]);
        V_ASSUME(vin.hook_rc[k] == PARSEC_HOOK_RETURN_DONE || vin.hook_rc[k] == PARSEC_HOOK_RETURN_AGAIN ||
                 vin.hook_rc[k] == PARSEC_HOOK_RETURN_ASYNC);
        /* a worker selects the task */
        g_in_scheduler--;
        g_round = k;
        int pi_before = g_n_pi, hook_before = g_n_hook, sched_before = g_n_sched;
        int rc = __parsec_task_progress(&es, task, distance);
        if (g_n_pi > pi_before && hook_before > 0) pi_after_body = 1;
        V_ASSERT((g_in_scheduler == 1) + (g_n_release == 1) + (g_async != 0) == 1 && g_in_scheduler >= 0 && g_in_scheduler <= 1,
                 "C16.rerun.inv.task_is_either_queued_once_or_completed_once_or_async");
        if (rc == PARSEC_HOOK_RETURN_AGAIN) {
            if (g_n_hook > hook_before) n_again_hk++; else n_again_pi++;
            V_ASSERT(g_n_sched == sched_before + 1, "C16.rerun.inv.each_AGAIN_one_reschedule");
            distance = g_sched_distance;
            continue;
        }
        finished = 1;
        break;
    }
    if (finished && !g_async) {
        V_ASSERT(g_n_release == 1 && g_n_complete == (vin.has_complete_execution ? 1 : 0),
                 "C16.rerun.lemma.exactly_one_completion_successors_released_once");
        V_ASSERT(g_n_hook == n_again_hk + 1, "C16.rerun.lemma.body_runs_once_per_AGAIN_plus_final_run");
        V_ASSERT(g_n_sched == n_again_pi + n_again_hk, "C16.rerun.lemma.one_reschedule_per_AGAIN");
        V_ASSERT(g_in_scheduler == 0, "C16.rerun.lemma.completed_task_not_left_in_scheduler");
        V_ASSERT(V_IMPLIES(vin.status0 == PARSEC_TASK_STATUS_NONE, g_n_pi == n_again_pi + 1) &&
                 V_IMPLIES(vin.status0 == PARSEC_TASK_STATUS_HOOK, g_n_pi == 0),
                 "C16.rerun.lemma.prepare_input_until_DONE_then_never_again");
        V_ASSERT(!pi_after_body, "C16.rerun.lemma.no_prepare_input_after_body_started");
        V_ASSERT(!g_sched_after_completion, "C16.rerun.lemma.no_reschedule_after_completion");
    }
    if (!finished) {
        V_ASSERT(g_in_scheduler == 1 && g_n_release == 0 && g_n_complete == 0, "C16.rerun.lemma.still_queued_not_completed_after_KMAX_AGAIN");
    }
    V_CANARY("rerun");
}
