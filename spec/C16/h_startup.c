/* STATUS: NOT part of the registered check (spec.py adds these jobs only with VERIF_C16_STARTUP=1): CBMC 6.11 needs
 * > 4 min of symbolic execution for the smallest configuration (BOX=2, RMAX=3); no result is claimed from this file.
 *
 * C16 (part 2): the chunked generation of startup tasks produces every startup instance exactly once,
 * whatever parsec_task_startup_iter / parsec_task_startup_chunk, wherever the generator yields.
 *
 * Function under contract: the GENERATED __jdf2c_startup_<CLASS> of a small JDF of spec/C16/jdf/, produced on
 * every run by the PTG compiler built from $VERIF_REPO/parsec/interfaces/ptg/ptg-compiler/jdf2c.c (spec.py);
 * the generated translation unit is included verbatim (GEN_C), nothing is cut out of it.
 *
 * The harness plays the runtime's part of the protocol: it calls the generator with a task whose locals are
 * all zero (what <name>_startup() does with memset) and calls it again, with the same task left untouched, for
 * as long as it answers PARSEC_HOOK_RETURN_AGAIN (what __parsec_task_progress does: part 1).
 *
 * Ghost state: g_visit[a][b][c] counts how often the instance (a,b,c) was handed to the scheduler
 * (stub of __parsec_schedule_vp, which walks the rings it is given), g_alloc counts allocations.
 * The specification of the set of startup instances is written from the JDF text (spec_is_startup).
 */
#include "verif.h"
#include "parsec/parsec_config.h"
#include "parsec/parsec_internal.h"
#include "parsec/execution_stream.h"
#include "parsec/data_distribution.h"
#include "parsec/mempool.h"
#include <stdarg.h>

#ifndef NVP
#define NVP 1                  /* virtual processes of the context                               */
#endif
#ifndef BOX
#define BOX 3                  /* parameters range over 0..BOX-1 (upper bounds -1..BOX-1)         */
#endif
#ifndef RMAX
#define RMAX 6                 /* calls of the generator (1 + re-entries)                         */
#endif
#define NPOOL (BOX * BOX * BOX + 1)

struct vin {
    int32_t  g[3];                          /* the JDF's integer globals (upper bounds), in declaration order */
    uint64_t startup_iter, startup_chunk;   /* parsec_task_startup_iter / _chunk                      */
    uint32_t myrank;
    uint8_t  owner[BOX][BOX];               /* rank_of(a, b): 0 = me, else somebody else              */
    uint8_t  has_vpid_of;
    uint8_t  vp[BOX][BOX];                  /* vpid_of(a, b)                                          */
    int32_t  tp_priority;
} vin;
#include "verif_vin.h"

/* ---- ghost ---- */
static int g_visit[BOX][BOX][BOX];
static int g_alloc, g_scheduled, g_sched_calls;
static int g_bad_point;          /* a task outside 0..BOX-1 was scheduled                         */
static int g_bad_task;           /* wrong class / taskpool / priority / derived local / ring       */
static int g_bad_distance;

/* ---- stubs of what the generated function reaches outside its translation unit ---- */
size_t parsec_task_startup_iter, parsec_task_startup_chunk;
int parsec_debug_output;

void *parsec_thread_mempool_allocate_when_empty(parsec_thread_mempool_t *tm)
{
    (void)tm;
    V_ASSERT(g_alloc < NPOOL, "C16.startup.post.no_more_tasks_than_points_of_the_box");
    g_alloc++;
    return malloc(sizeof(parsec_task_t));       /* one object per task (an array pool is far more expensive) */
}
void parsec_dependencies_mark_task_as_startup(parsec_task_t *t, parsec_execution_stream_t *e) { (void)t; (void)e; }
#ifndef VERIF_REPLAY
void parsec_output(int id, const char *fmt, ...) { (void)id; (void)fmt; }
char *parsec_task_snprintf(char *s, size_t n, const parsec_task_t *t) { (void)n; (void)t; return s; }
#endif
/* class descriptor of parsec_task_t, already initialised, with an EMPTY constructor chain.  (The real chain
 * -- parsec_object / parsec_list_item constructors and __parsec_task_constructor of parsec.c -- only presets fields
 * the generated code overwrites or does not read; running the real object system makes CBMC explore every
 * constructor-typed function of the generated unit through the constructor array: does not finish.) */
#ifndef VERIF_REPLAY
static parsec_construct_t h_no_ctor[1] = { NULL };
parsec_class_t parsec_task_t_class = { "parsec_task_t", NULL, NULL, NULL, 1, 0, h_no_ctor, NULL, sizeof(parsec_task_t) };
#endif

static const parsec_task_class_t *g_expected_class;
static parsec_taskpool_t *g_expected_tp;
static void account_task(parsec_task_t *t);

int __parsec_schedule_vp(parsec_execution_stream_t *e, parsec_task_t **rings, int32_t distance)
{
    (void)e;
    g_sched_calls++;
    if (distance != 0) g_bad_distance = 1;
    for (int vp = 0; vp < NVP; vp++) {
        parsec_task_t *ring = rings[vp];
        if (NULL == ring) continue;
        parsec_task_t *t = ring;
        int guard = 0;
        do {
            account_task(t);
            parsec_task_t *nx = (parsec_task_t *)t->super.list_next;
            if (nx == NULL || ((parsec_task_t *)nx->super.list_prev) != t) { g_bad_task = 1; break; }
            t = nx;
            if (++guard > NPOOL) { g_bad_task = 1; break; }
        } while (t != ring);
        rings[vp] = NULL;                    /* as the real function does for the rings it delivered */
    }
    return 0;
}

/* ---- the generated code ---- */
#include GEN_C

#define CAT_(a, b) a##b
#define CAT(a, b) CAT_(a, b)
#define STARTUP_FN CAT(__jdf2c_startup_, CLS)
#define TASK_T     CAT(CAT(CAT(__parsec_, JDF), CAT(_, CLS)), _task_t)
#define TP_T       CAT(CAT(__parsec_, JDF), _internal_taskpool_t)
#define CLASS_OBJ  CAT(CAT(JDF, _), CLS)

/* ---- specification, written from the JDF text: spec/C16/jdf/<JDF>.jdf, class CLS ----
 * IDX_A/B/C: index of the parameters in the task's locals; NPAR parameters;
 * spec_in_space(a,b,c) = the point is in the execution space, spec_derived_ok = derived locals have their value,
 * spec_guard(a,b,c)    = the input dependencies make it a startup task.                                     */
#define L(t, i) ((t)->locals[i].value)
static int mine(int a, int b) { return vin.owner[a][b] == 0; }

#if CASE == 1      /* tri.jdf T(m, n): m = 0..NM, lo = m, n = lo..NN, READ A <- (n%2==0) ? descA(m,n) : A U(m,n) */
#define NPAR 2
#define IDX_A 0
#define IDX_B 2
#define NLOC 3
static int spec_in_space(int a, int b, int c) { (void)c; return a <= vin.g[0] && b >= a && b <= vin.g[1]; }
static int spec_guard(int a, int b, int c) { (void)a; (void)c; return (b % 2) == 0; }
static int spec_derived_ok(parsec_task_t *t) { return L(t, 1) == L(t, 0); }
#define SET_GLOBALS(s, d, g) do { (s)._g_descA = (d); (s)._g_NM = (g)[0]; (s)._g_NN = (g)[1]; } while (0)
#elif CASE == 2    /* tri.jdf U(m, n): m = 0..NM, n = m..NN, READ A <- descA(m,n) */
#define NPAR 2
#define IDX_A 0
#define IDX_B 1
#define NLOC 2
static int spec_in_space(int a, int b, int c) { (void)c; return a <= vin.g[0] && b >= a && b <= vin.g[1]; }
static int spec_guard(int a, int b, int c) { (void)a; (void)b; (void)c; return 1; }
static int spec_derived_ok(parsec_task_t *t) { (void)t; return 1; }
#define SET_GLOBALS(s, d, g) do { (s)._g_descA = (d); (s)._g_NM = (g)[0]; (s)._g_NN = (g)[1]; } while (0)
#elif CASE == 3    /* box.jdf B(i, j, k): i = 0..NI, j = 0..NJ..2, s = i+j, k = j..NK, RW A <- (s%3 != 1) ? descA(i,k) : A C(i,j,k) */
#define NPAR 3
#define IDX_A 0
#define IDX_B 1
#define IDX_C 3
#define NLOC 4
static int spec_in_space(int a, int b, int c) { return a <= vin.g[0] && b <= vin.g[1] && (b % 2) == 0 && c >= b && c <= vin.g[2]; }
static int spec_guard(int a, int b, int c) { (void)c; return ((a + b) % 3) != 1; }
static int spec_derived_ok(parsec_task_t *t) { return L(t, 2) == L(t, 0) + L(t, 1); }
#define SET_GLOBALS(s, d, g) do { (s)._g_descA = (d); (s)._g_NI = (g)[0]; (s)._g_NJ = (g)[1]; (s)._g_NK = (g)[2]; } while (0)
#else
#error unknown CASE
#endif
/* the data collection's owner / vpid functions are called with (a, b) = the arguments of the class' affinity */
#if NPAR == 3
#define AFF_A(a, b, c) (a)
#define AFF_B(a, b, c) (c)
#else
#define AFF_A(a, b, c) (a)
#define AFF_B(a, b, c) (b)
#endif
static int spec_is_startup(int a, int b, int c)
{
    return spec_in_space(a, b, c) && mine(AFF_A(a, b, c), AFF_B(a, b, c)) && spec_guard(a, b, c);
}

static void account_task(parsec_task_t *t)
{
    int a = L(t, IDX_A), b = L(t, IDX_B), c = 0;
#if NPAR == 3
    c = L(t, IDX_C);
#endif
    g_scheduled++;
    if (a < 0 || a >= BOX || b < 0 || b >= BOX || c < 0 || c >= BOX) { g_bad_point = 1; return; }
    g_visit[a][b][c]++;
    if (t->task_class != g_expected_class || t->taskpool != g_expected_tp || t->priority != vin.tp_priority ||
        !spec_derived_ok(t) || t->chore_mask != PARSEC_DEV_ALL)
        g_bad_task = 1;
}

static uint32_t stub_rank_of(parsec_data_collection_t *d, ...)
{
    va_list ap; va_start(ap, d);
    int a = va_arg(ap, int), b = va_arg(ap, int);
    va_end(ap);
    if (a < 0 || a >= BOX || b < 0 || b >= BOX) return vin.myrank + 1;
    return vin.owner[a][b] == 0 ? vin.myrank : vin.myrank + 1;
}
static int32_t stub_vpid_of(parsec_data_collection_t *d, ...)
{
    va_list ap; va_start(ap, d);
    int a = va_arg(ap, int), b = va_arg(ap, int);
    va_end(ap);
    if (a < 0 || a >= BOX || b < 0 || b >= BOX) return 0;
    return vin.vp[a][b];
}

static TP_T tp;
static parsec_data_collection_t dc;
static parsec_execution_stream_t es[NVP];
static parsec_thread_mempool_t h_tmpool[NVP];
static const parsec_task_class_t *h_classes[4];
static TASK_T gen_task;
static parsec_context_t h_ctx;
static parsec_vp_t h_vp;
#if NVP != 1
#error NVP must be 1 (static context)
#endif

void h_startup(void)
{
    vin_load();
    /* the context: one virtual process with one execution stream, empty task mempool (static objects: the
     * size-1 trailing arrays of parsec_context_t / parsec_vp_t are exactly large enough for NVP == 1) */
    parsec_context_t *ctx = &h_ctx;
    ctx->nb_vp = NVP;
    for (int v = 0; v < NVP; v++) {
        parsec_vp_t *vp = &h_vp;
        vp->vp_id = v; vp->parsec_context = ctx; vp->nb_cores = 1;
        vp->execution_streams[0] = &es[v];
        es[v].virtual_process = vp;
        es[v].context_mempool = &h_tmpool[v];
        h_tmpool[v].mempool.lifo_head.data.item = NULL;
        ctx->virtual_processes[v] = vp;
    }
    /* domain */
    for (int i = 0; i < 3; i++) V_ASSUME(vin.g[i] >= -1 && vin.g[i] < BOX);
    for (int a = 0; a < BOX; a++) for (int b = 0; b < BOX; b++) V_ASSUME(vin.vp[a][b] < 2 * NVP);
    parsec_task_startup_iter = vin.startup_iter;
    parsec_task_startup_chunk = vin.startup_chunk;
    dc.myrank = vin.myrank;
    dc.rank_of = stub_rank_of;
    dc.vpid_of = vin.has_vpid_of ? stub_vpid_of : NULL;
    tp.super.super.context = ctx;
    tp.super.super.priority = vin.tp_priority;
    tp.super.super.task_classes_array = h_classes;
    h_classes[CLASS_OBJ.task_class_id] = &CLASS_OBJ;
    g_expected_class = &CLASS_OBJ; g_expected_tp = &tp.super.super;
    SET_GLOBALS(tp.super, &dc, vin.g);
    /* the generator task, as <name>_startup() builds it: locals all zero */
    memset(&gen_task.locals, 0, sizeof(parsec_assignment_t) * MAX_LOCAL_COUNT);
    gen_task.taskpool = &tp.super.super;
    g_alloc = g_scheduled = g_sched_calls = 0; g_bad_point = g_bad_task = g_bad_distance = 0;

    int rc = PARSEC_HOOK_RETURN_AGAIN, calls = 0;
    for (int r = 0; r < RMAX && rc == PARSEC_HOOK_RETURN_AGAIN; r++) {
        int before = g_scheduled;
        rc = STARTUP_FN(&es[0], &gen_task);
        calls++;
        V_ASSERT(rc == PARSEC_HOOK_RETURN_AGAIN || rc == PARSEC_HOOK_RETURN_DONE, "C16.startup.post.answers_AGAIN_or_DONE");
        V_ASSERT(g_alloc == g_scheduled, "C16.startup.post.every_created_task_handed_to_scheduler_before_yielding");
        V_ASSERT(V_IMPLIES(rc == PARSEC_HOOK_RETURN_AGAIN, (uint64_t)(g_scheduled - before) > vin.startup_chunk),
                 "C16.startup.post.yields_only_after_more_than_chunk_tasks");
    }
    V_ASSERT(rc == PARSEC_HOOK_RETURN_DONE, "C16.startup.post.completes_within_RMAX_calls");
    V_ASSERT(!g_bad_point, "C16.startup.post.no_instance_outside_the_box");
    V_ASSERT(!g_bad_task, "C16.startup.post.task_fields_class_taskpool_priority_derived_locals_ring");
    V_ASSERT(!g_bad_distance, "C16.startup.post.scheduled_at_distance_0");
    for (int a = 0; a < BOX; a++) for (int b = 0; b < BOX; b++) for (int c = 0; c < (NPAR == 3 ? BOX : 1); c++) {
        if (spec_is_startup(a, b, c))
            V_ASSERT(g_visit[a][b][c] == 1, "C16.startup.post.every_startup_instance_exactly_once");
        else
            V_ASSERT(g_visit[a][b][c] == 0, "C16.startup.post.no_instance_that_is_not_a_startup_task");
    }
    V_CANARY("startup");
}
