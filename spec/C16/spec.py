import os, subprocess, tempfile, shutil
from vlib import Job
import vlib

HERE = os.path.dirname(os.path.abspath(__file__))

META = dict(
    level="other",
    functions=["__parsec_task_progress", "__parsec_execute", "__parsec_complete_execution", "__parsec_schedule"],
    explanation="Part 1 (parsec/scheduling.c included verbatim, harness route): contract of __parsec_task_progress for ONE pass of a task "
                "in an arbitrary state (any status byte, any priority, any stale list links, device selected or not, CPU or accelerator "
                "device, any distance 0..INT_MAX-1), prepare_input answering DONE/AGAIN/ASYNC and the body answering ANY 32-bit code: "
                "exactly one of {completed: prepare_output, complete_execution, release_task each exactly once in that order, no reschedule; "
                "AGAIN (from prepare_input or from the body): not completed, task made a singleton, priority demoted as coded, status HOOK "
                "(body) or unchanged (prepare_input), handed to the scheduler module exactly once with distance+1; ASYNC: nothing more, "
                "and the task is not even read any more (the stub frees it: pointer checks)}; error codes end in parsec_fatal; the body is "
                "not invoked when prepare_input did not answer DONE; a task in status HOOK skips prepare_input and re-runs the body.  "
                "Separate contracts of __parsec_execute and __parsec_complete_execution.  The step contract holds from ANY task state, so "
                "by induction on the number of AGAIN answers (meta-step) the passes of a task end with exactly one completion; job "
                "progress.rerun composes up to KMAX passes on the real code as a bounded illustration of that induction.  "
                "Part 2 of the property (chunked generation of startup tasks by the generated __jdf2c_startup_<CLASS>) is NOT decided by "
                "this check: a harness on the generated code exists (h_startup.c, jdf/, opt-in with VERIF_C16_STARTUP=1) but CBMC does not "
                "get through it in the time budget.",
    trusted_base=["stubs installed as task-class hooks (prepare_input, incarnations[].hook, prepare_output, complete_execution, release_task): "
                  "count calls, answer codes from vin; complete_execution stands for release_deps (successors released there)",
                  "stub scheduler module behind parsec_current_scheduler->module.schedule (records es, ring, distance, state of the task); "
                  "the concrete schedulers keeping / returning what they are given is C17-C19",
                  "stub parsec_select_best_device (mca/device/device.c): keeps an earlier selection, else selects chore/device from vin, or fails",
                  "stubs parsec_pins_instrument (no-op), parsec_my_execution_stream, parsec_output, getpid, parsec_mca_device_is_gpu, "
                  "*parsec_weaksym_exit (process exit: path ends)",
                  "meta-step: induction on the number of AGAIN answers from the one-pass contract to 'exactly one completion'"],
    assumptions=["a task is owned by exactly one thread while it is inside __parsec_task_progress (no interference on the task's fields)",
                 "prepare_input answers only DONE, AGAIN or ASYNC (the code's assert(0) in the default case; under NDEBUG any other answer "
                 "makes __parsec_task_progress return without completing or rescheduling the task)",
                 "the scheduler module's schedule() keeps the task it is given (its return code is ignored by __parsec_task_progress)",
                 "hooks do not change task->status themselves; PINS callbacks do not modify the task",
                 ],
)

_gen_cache = {}


def _generate():
    """Build ptgpp from REPO's sources and translate the JDFs; returns the directory holding c16_<jdf>.c (or raises)."""
    if "dir" in _gen_cache:
        return _gen_cache["dir"]
    R = vlib.REPO
    B = vlib.build_dir()
    if B is None:
        raise vlib.Undecided("no build directory")
    base = os.path.join(os.environ.get("VERIF_TMP", "/tmp"), ".vscratch", str(os.getpid()))
    os.makedirs(base, exist_ok=True)
    d = tempfile.mkdtemp(prefix="c16gen-", dir=base)
    pc = "parsec/interfaces/ptg/ptg-compiler"
    srcs = [os.path.join(R, pc, f) for f in ("jdf.c", "jdf2c.c", "jdf_unparse.c")] + \
           [os.path.join(B, pc, f) for f in ("parsec.y.c", "parsec.l.c")]
    cmd = ["gcc", "-O0", "-w", "-DBUILDING_PARSEC", "-D_GNU_SOURCE", "-DNDEBUG", "-std=gnu11",
           "-I" + os.path.join(R, pc), "-I" + B + "/parsec/include", "-I" + B, "-I" + R + "/parsec/include", "-I" + R,
           "-I" + os.path.join(B, pc)] + srcs + ["-o", os.path.join(d, "ptgpp"), "-lm", B + "/parsec/libparsec-base.a"]
    r = subprocess.run(cmd, capture_output=True, text=True, timeout=300)
    if r.returncode != 0:
        raise vlib.Undecided("building ptgpp from %s failed: %s" % (R, r.stderr[-500:]))
    for j in ("tri", "box"):
        r = subprocess.run([os.path.join(d, "ptgpp"), "-E", "-i", os.path.join(HERE, "jdf", j + ".jdf"), "-o", "c16_" + j, "-f", j],
                           cwd=d, capture_output=True, text=True, timeout=120)
        if r.returncode != 0 or not os.path.exists(os.path.join(d, "c16_%s.c" % j)):
            raise vlib.Undecided("ptgpp failed on %s.jdf: %s" % (j, (r.stdout + r.stderr)[-500:]))
    _gen_cache["dir"] = d
    return d


def jobs(tier):
    full = tier == "thorough"
    P = "h_progress.c"
    K = 12 if full else 6
    J = [
        Job("progress.step", P, entry="h_progress", unwind=4, functions=["__parsec_task_progress", "__parsec_execute",
            "__parsec_complete_execution", "__parsec_schedule"], timeout=600, min_obligations=25),
        Job("execute", P, entry="h_execute", unwind=4, functions=["__parsec_execute"], timeout=600, min_obligations=9),
        Job("complete", P, entry="h_complete", unwind=4, functions=["__parsec_complete_execution"], timeout=600, min_obligations=8),
        Job("progress.rerun", P, entry="h_rerun", unwind=K + 1, defines={"KMAX": K},
            functions=["__parsec_task_progress"], timeout=900, min_obligations=9,
            bounded="composition of at most %d passes of one task through __parsec_task_progress (stand-in for the induction on the "
                    "number of AGAIN answers; the one-pass contract progress.step is unbounded)" % K),
    ]
    # Part 2 (chunked startup generation) is NOT part of the registered check: with CBMC 6.11 the symbolic execution of
    # the generated unit alone takes > 4 min for the smallest box (see the report); the harness, the JDF corpus and the
    # generation step are kept for further work and can be tried with VERIF_C16_STARTUP=1.
    if not os.environ.get("VERIF_C16_STARTUP"):
        return J
    try:
        gen = _generate()
    except Exception as e:   # reported as an undecided job: a harness that cannot be built never counts as a pass
        gen = None
        J.append(Job("startup.generate", "h_startup.c", entry="h_generation_failed_%s" % type(e).__name__, timeout=60))
    if gen:
        S = "h_startup.c"
        cases = STARTUP_CASES_FULL if full else STARTUP_CASES_QUICK
        for name, case, jdf, cls, box, rmax, unw in cases:
            J.append(Job("startup.%s" % name, S, entry="h_startup", unwind=unw, unwindset={"parsec_lifo_pop.1": 2},
                         defines={"GEN_C": '"c16_%s.c"' % jdf, "CASE": case, "JDF": jdf, "CLS": cls, "BOX": box, "RMAX": rmax, "NVP": 1},
                         extra_cc=["-I" + gen], replay=False, timeout=1500 if full else 900, mem_gb=8, object_bits=12,
                         functions=["__jdf2c_startup_%s" % cls], min_obligations=8,
                         bounded="execution-space bounds -1..%d per parameter (box %d^n), one virtual process, <= %d calls of the generator; "
                                 "parsec_task_startup_iter/_chunk unbounded; corpus of %s.jdf class %s only" % (box - 1, box, rmax, jdf, cls)))
    return J


# (name, CASE, jdf, class, BOX, RMAX, unwind)
STARTUP_CASES_QUICK = [
    ("tri.T", 1, "tri", "T", 2, 3, 6),
    ("tri.U", 2, "tri", "U", 2, 3, 6),
]
STARTUP_CASES_FULL = [
    ("tri.T", 1, "tri", "T", 3, 4, 8),
    ("tri.U", 2, "tri", "U", 3, 4, 8),
    ("box.B", 3, "box", "B", 2, 3, 6),
]

MANIFEST = dict(
    category="other",
    text="One-pass contract of __parsec_task_progress (together with the real __parsec_execute, __parsec_complete_execution, "
         "__parsec_schedule of scheduling.c) discharged by CBMC for every task state (status byte, priority, stale list links, device "
         "selected or not, CPU or accelerator, distance) and every 32-bit answer of the body: exactly one of completed-once (prepare_output, "
         "complete_execution, release_task once each, in order, no reschedule) / rescheduled exactly once as a singleton with distance+1, "
         "status HOOK, priority demoted as coded / left alone and not even read any more (ASYNC); the body is not invoked unless "
         "prepare_input answered DONE; a task in status HOOK skips prepare_input and re-runs the body; error codes end in parsec_fatal.  "
         "'Re-run until completion, successors released exactly once' follows from this by induction on the number of AGAIN answers "
         "(meta-step, not mechanised; composed on the real code for up to 6 / 12 passes as a bounded job).  Only the first half of the "
         "property is covered and the scheduler is a recording stub, hence 'other', not 'proof'.",
    note="The second half of the property -- chunked generation of startup tasks (generated __jdf2c_startup_<CLASS>, "
         "task_startup_iter / task_startup_chunk, re-entry after AGAIN) -- is NOT decided by this check (the whole generated unit does "
         "not get through CBMC here); it is decided, for an enumerated set of corpus classes / chunk / iter / placement configurations, by "
         "the startup_chunked.* jobs of property C01 (spec/C01, which cuts only the generated startup function), and the clearing of the "
         "ring array that chunked generation relies on is a postcondition of __parsec_schedule_vp under C08.  Also not decided: the "
         "concrete schedulers ('all schedulers' is covered only through the module interface: stub module; C17-C19), release_deps "
         "itself (complete_execution is a counting stub), parsec_select_best_device (stub), interference of other threads on a task "
         "in progress (assumed absent), prepare_input answering an error code (the task is silently dropped under NDEBUG: outside the "
         "contract, listed as assumption).",
    technique="pre/post contracts on the real scheduling.c (harness route), ghost call counters and sequence numbers, freed-object trick "
              "for 'task out of reach after ASYNC', CBMC 6.11 (MiniSat), complete unwinding",
    design_ref="DESIGN.md section 5, C16")
