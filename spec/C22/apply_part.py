import os, re, importlib.util
from vlib import Job
import vlib

HERE = os.path.dirname(os.path.abspath(__file__))
C01DIR = os.path.join(os.path.dirname(HERE), "C01")
_spec = importlib.util.spec_from_file_location("c01spec_for_c22", os.path.join(C01DIR, "spec.py"))
c01 = importlib.util.module_from_spec(_spec)
_spec.loader.exec_module(c01)

APPLY_JDF = "parsec/data_dist/matrix/apply.jdf"
CLASSES = [("L", "APPLY_L", 1), ("U", "APPLY_U", 2), ("D", "APPLY_DIAG", 3)]
UPLO = {"full": 123, "upper": 121, "lower": 122}


def _corpus():
    jdf = os.path.join(vlib.REPO, APPLY_JDF)
    return [("apply." + k, "apply", cls, case, jdf, ("hook_of_<jdf>_<CLS>_CPU",)) for k, cls, case in CLASSES]


def _cut_new(gen_c, jdf, out):
    """Cut of the generated constructor parsec_<jdf>_new: prelude (everything before the first make_key function) + the
    '#undef <global>' lines the generator emits before it + a declaration of the class object and of <jdf>_startup (only its
    address is taken) + the function itself, verbatim."""
    src = re.sub(r"(?m)^#line .*$", "", open(gen_c).read())
    clean = vlib.strip_comments_keep_layout(src)
    first = clean.find("static inline parsec_key_t __jdf2c_make_key_")
    defs = c01._definitions(clean)
    fn = "parsec_%s_new" % jdf
    if first < 0 or not defs.get(fn):
        raise vlib.Undecided("cut: %s not found exactly once" % fn)
    s0, b, e = defs[fn]
    undefs = re.findall(r"(?m)^#undef \w+\s*$", clean[first:s0])
    if not undefs:
        raise vlib.Undecided("cut: no #undef block before %s" % fn)
    body = clean[b:e]
    if "%s_startup" % jdf not in body:
        raise vlib.Undecided("cut: %s does not install %s_startup" % (fn, jdf))
    open(out, "w").write("/* cut mechanically from %s by spec/C22/spec.py */\n" % os.path.basename(gen_c) + src[:first] +
                         "\n".join(undefs) + "\nPARSEC_OBJ_CLASS_DECLARATION(__parsec_%s_internal_taskpool_t);\n" % jdf +
                         "static void %s_startup(parsec_context_t *context, __parsec_%s_internal_taskpool_t *__parsec_tp, "
                         "parsec_list_item_t **ready_tasks);\n" % (jdf, jdf) + src[s0:e + 1] + "\n")


def apply_jobs(tier):
    try:
        gdir, cuts = c01._generate(_corpus(), cache_key="c22apply", prefix="c22")
    except Exception as e:
        return [Job("generate", "h_apply.c", entry="h_generation_failed_%s" % re.sub(r"\W", "_", str(e))[:80], timeout=60)]
    inc = ["-I" + gdir, "-I" + C01DIR, "-I" + HERE]
    J = []
    try:
        newcut = os.path.join(gdir, "c22apply_new_cut.h")
        _cut_new(os.path.join(gdir, "c22apply.c"), "c22apply", newcut)
    except Exception as e:
        return [Job("generate", "h_apply.c", entry="h_generation_failed_%s" % re.sub(r"\W", "_", str(e))[:80], timeout=60)]
    J.append(Job("apply.new", "h_apply_new.c", entry="h_new", defines={"GEN_CUT": '"%s"' % newcut}, unwind=4, extra_cc=inc, replay=False,
                 functions=["parsec_apply_new (generated constructor)"], timeout=300, mem_gb=4, min_obligations=5))
    box = 3 if tier == "quick" else 4
    # (uplo, mt, nt) tuples, one cbmc process each
    if tier == "quick":
        tuples = [("full", 3, 3), ("full", 2, 3), ("full", 3, 2), ("upper", 3, 3), ("lower", 3, 3), ("upper", 3, 2), ("lower", 2, 3),
                  ("full", 0, 2), ("lower", 1, 1)]
    else:
        tuples = [(u, a, b) for u in UPLO for a in range(0, 4) for b in range(0, 4)] + \
                 [(u, 2, 4) for u in UPLO]      # 4x4 and 4x2: cbmc answers ERROR (more task objects than the harness pool addresses), left out
    for k, cls, case in CLASSES:
        base = {"GEN_CUT": '"%s"' % cuts["apply." + k], "JDF": "c22apply", "CLS": cls, "CASE": case}
        d = dict(base); d["BOX"] = box
        J.append(Job("apply.init.%s" % cls, "h_apply.c", entry="h_init", defines=d, unwind=box + 2, extra_cc=inc, replay=False,
                     functions=["apply_%s_internal_init (generated from the real apply.jdf, counting part)" % cls], timeout=900, mem_gb=6,
                     min_obligations=3, object_bits=10,
                     bounded="uplo in {FULL, UPPER, LOWER}, mt and nt symbolic in 0..%d; placement of every tile symbolic" % box))
        d = dict(base); d.update({"BOX": box, "HOOK_FN": "hook_of_c22apply_%s_CPU" % cls})
        J.append(Job("apply.hook.%s" % cls, "h_apply.c", entry="h_hook", defines=d, unwind=box + 2, extra_cc=inc, replay=False,
                     functions=["hook_of_apply_%s (generated body hook)" % cls], timeout=600, mem_gb=4, min_obligations=6))
        for un, mt, nt in tuples:
            uv = UPLO[un]
            if True:
                b = max(mt, nt, 1)
                d = dict(base); d.update({"BOX": b, "RMAX": 1, "ONE_CALL": None, "FIX_G0": "(%d)" % uv, "FIX_G1": "(%d)" % mt,
                                          "FIX_G2": "(%d)" % nt})
                J.append(Job("apply.startup.%s.%s.%dx%d" % (cls, un, mt, nt), "h_apply.c", entry="h_startup", defines=d,
                             unwind=b * b + 2, unwindset=c01.US_REL, extra_cc=inc, replay=False,
                             functions=["__jdf2c_startup_%s (generated from the real apply.jdf)" % cls], timeout=900, mem_gb=6,
                             object_bits=12, min_obligations=8,
                             bounded="uplo=%s, %d x %d tiles, one virtual process, one call of the generator that answers DONE "
                                     "(parsec_task_startup_iter symbolic, chunk not reached); placement of every tile symbolic" % (un, mt, nt)))
    J.append(Job("apply.lemma_cover", "h_apply.c", entry="h_cover", defines={"GEN_CUT": '"%s"' % cuts["apply.L"], "JDF": "c22apply",
                 "CLS": "APPLY_L", "CASE": 1}, unwind=5, extra_cc=inc, replay=False, functions=[], timeout=300, min_obligations=2))
    return J


def wrapper_jobs(tier):
    """apply_wrapper.c against a fresh apply.h (generated under the JDF's own name by the rebuilt compiler)."""
    import subprocess
    try:
        gdir, cuts = c01._generate(_corpus(), cache_key="c22apply", prefix="c22")
        wdir = os.path.join(gdir, "wrapper_inc")
        if not os.path.exists(os.path.join(wdir, "apply.h")):
            os.makedirs(wdir, exist_ok=True)
            r = subprocess.run([os.path.join(gdir, "ptgpp"), "-E", "-i", os.path.join(vlib.REPO, APPLY_JDF), "-o", "apply", "-f", "apply"],
                               cwd=wdir, capture_output=True, text=True, timeout=120)
            if r.returncode != 0 or not os.path.exists(os.path.join(wdir, "apply.h")):
                raise vlib.Undecided("ptgpp failed on apply.jdf: %s" % (r.stdout + r.stderr)[-300:])
    except Exception as e:
        return [Job("generate_wrapper", "h_wrapper.c", entry="h_generation_failed_%s" % re.sub(r"\W", "_", str(e))[:80], timeout=60)]
    inc = ["-iquote", wdir, "-I" + HERE]      # -iquote: ahead of the build directory in the search for "apply.h"
    return [Job("wrapper.apply_New", "h_wrapper.c", entry="h_apply_New", unwind=3, extra_cc=inc, replay=False, timeout=300, min_obligations=5,
                functions=["parsec_apply_New (apply_wrapper.c)"]),
            Job("wrapper.apply", "h_wrapper.c", entry="h_apply", unwind=3, extra_cc=inc, replay=False, timeout=300, min_obligations=8,
                functions=["parsec_apply", "parsec_apply_Destruct (apply_wrapper.c)"])]


REDUCE = [("reduce_col", "parsec/data_dist/matrix/reduce_col.jdf", "reduce_col", "col"),
          ("reduce_row", "parsec/data_dist/matrix/reduce_row.jdf", "reduce_row", "column")]


def reduce_jobs(tier):
    corpus = [("reduce." + j, j, cls, 0, os.path.join(vlib.REPO, path), ("hook_of_<jdf>_<CLS>_CPU",), ()) for j, path, cls, _ in REDUCE]
    try:
        gdir, cuts = c01._generate(corpus, cache_key="c22reduce", prefix="c22")
    except Exception as e:
        return [Job("generate_reduce", "h_reduce.c", entry="h_generation_failed_%s" % re.sub(r"\W", "_", str(e))[:80], timeout=60)]
    J = []
    for j, path, cls, colpar in REDUCE:
        J.append(Job("reduce.hook.%s" % j, "h_reduce.c", entry="h_reduce_hook",
                     defines={"GEN_CUT": '"%s"' % cuts["reduce." + j], "JDF": "c22" + j, "CLS": cls, "COLPAR": colpar,
                              "HOOK_FN": "hook_of_c22%s_%s_CPU" % (j, cls)},
                     unwind=4, extra_cc=["-I" + gdir, "-I" + HERE], replay=False, timeout=300, mem_gb=4, min_obligations=3,
                     functions=["hook_of_%s_%s (generated body hook of the real %s)" % (j, cls, path)]))
    return J
