/* C22, part 1: the hand-written map operator  parsec/data_dist/matrix/map_operator.c  (included verbatim below).
 *
 * Property clause: "the map operator combines every tile exactly once".
 *
 * Functions under contract: parsec_map_operator_startup_fn, iterate_successors, add_task_to_list, release_deps,
 * data_lookup, hook_of, complete_hook, parsec_map_operator_New (+ the wiring of the class descriptor parsec_map_operator).
 *
 * h_protocol  : TOP-LEVEL obligation.  A src/dest matrix of MT x NT tiles (fixed per cbmc process), a symbolic placement
 *               (vin.owner: local / not local per tile; vin.vp: virtual process of each tile), NVP virtual processes with
 *               NC0 / NC1 cores (fixed per cbmc process), a taskpool in the state parsec_map_operator_New leaves it in (h_new
 *               discharges that).  The SEQUENTIAL protocol of the runtime
 *                    startup_fn;  while some created task has not run: pick one (ORDER 0: creation order, ORDER 1: newest
 *                    first, ORDER 2: any order, chosen nondeterministically);  prepare_input = data_lookup;  hook = hook_of
 *                    (calls the operator: logged per tile by the stub operator h_op);  complete_execution = complete_hook
 *                    -> release_deps -> iterate_successors -> add_task_to_list -> __parsec_schedule_vp (may create a task)
 *               must invoke the operator EXACTLY ONCE on every LOCAL tile of src, on no other tile, with that tile's src and
 *               dest data, op_data and coordinates, and must stop after exactly nb_local_tiles tasks (= tp->nb_tasks).
 * h_iter      : per-function contract of iterate_successors for a symbolic task (m,n) and symbolic next_n: at most ONE
 *               successor; it is the next local tile of the column walk (same column below m, else the first local tile of
 *               the first non-empty column claimed through next_n); never a tile of a column claimed by somebody else.
 *               With -DRG_ENV the environment (other walkers) claims columns through next_n before and after each of my
 *               atomic operations (rely: next_n only grows, by fetch-and-increment).
 * h_new       : parsec_map_operator_New (real object system compiled in).
 * h_wiring    : the class descriptor names exactly the functions the protocol calls.
 */
#ifdef RG_ENV
#define VERIF_RG_POST_STEP
#endif
#include "verif.h"
#include "verif_rg.h"
#include "parsec/parsec_config.h"
#include "parsec/runtime.h"
#include "parsec/parsec_internal.h"
#include "parsec/execution_stream.h"
#include "parsec/data_distribution.h"
#include "parsec/data_dist/matrix/matrix.h"
#include "parsec/data_internal.h"
#include "parsec/mempool.h"
#include "parsec/mca/pins/pins.h"
#include <stdarg.h>
#include <stdlib.h>
#include <string.h>

#ifndef MT
#define MT 2
#endif
#ifndef NT
#define NT 2
#endif
#ifndef NVP
#define NVP 1
#endif
#ifndef NC0
#define NC0 1
#endif
#ifndef NC1
#define NC1 1
#endif
#ifndef ORDER
#define ORDER 0
#endif
#define MTD (MT > 0 ? MT : 1)
#define NTD (NT > 0 ? NT : 1)
#define MAXC 2                       /* cores per virtual process: 1 or 2 */
#define MAXT (MT * NT + 2)           /* room for more tasks than tiles, so that "too many tasks" is observable */
#define NENV 8
#define NCLAIM (NT + 12)

struct vin {
    uint8_t  owner[MTD][NTD];        /* 0 = tile is local (rank_of == myrank) */
    uint8_t  vp[MTD][NTD];           /* vpid_of the tile */
    uint32_t myrank;
    uint8_t  choice[MAXT];           /* ORDER 2: which pending task runs at step k */
    int32_t  m, n, next_n;           /* h_iter: the task whose successors are iterated, and next_n before */
    uint32_t action_mask;
    uint8_t  env[NENV];              /* RG_ENV: number of columns the environment claims at each of its steps */
    int32_t  nb_local_tiles;         /* h_new */
} vin;
#include "verif_vin.h"

/* ---------------- what map_operator.c reaches outside itself ---------------- */
int parsec_debug_output;
uint64_t parsec_pins_enable_mask = 0;        /* no PINS module registered: PARSEC_PINS(...) are no-ops (assumption) */

#ifdef WITH_OBJ
#include "parsec/class/parsec_object.c"      /* the real object system: parsec_map_operator_New uses PARSEC_OBJ_NEW */
/* parent class of the map-operator taskpool.  The real descriptor lives in parsec.c (parent parsec_list_item_t, constructor
 * __parsec_taskpool_constructor); here: no constructor of its own (trusted: listed). */
parsec_class_t parsec_taskpool_t_class = { "parsec_taskpool_t", &parsec_object_t_class, NULL, NULL, 0, 0, NULL, NULL,
                                           sizeof(parsec_taskpool_t) };
#endif
/* class descriptor of parsec_task_t, already initialised, with an EMPTY constructor chain (the real chain only presets
 * list links / status / selected_device / selected_chore, none of which map_operator.c or the obligations read). */
static parsec_construct_t h_no_ctor[1] = { NULL };
parsec_class_t parsec_task_t_class = { "parsec_task_t", NULL, NULL, NULL, 1, 0, h_no_ctor, NULL, sizeof(parsec_task_t) };

/* stub of the inline parsec_thread_mempool_allocate (mempool.h): one fresh task object per call (trusted: listed) */
static void *h_thread_mempool_allocate(parsec_thread_mempool_t *tm);
#define parsec_thread_mempool_allocate h_thread_mempool_allocate
#include "parsec/data_dist/matrix/map_operator.c"
#undef parsec_thread_mempool_allocate

/* ---------------- ghost state ---------------- */
static parsec_map_operator_taskpool_t h_tp;
static parsec_tiled_matrix_t h_src, h_dest;
static parsec_context_t *h_ctx;
static parsec_vp_t *h_vp[2];
static parsec_execution_stream_t h_es[2][MAXC];
static parsec_thread_mempool_t h_tm[2][MAXC];
static const int h_nc[2] = { NC0, NC1 };
static char h_token[2][MTD][NTD];            /* opaque parsec_data_t handles: [0]=src, [1]=dest */
static char h_payload[2][MTD][NTD];          /* what the copies' device_private point to */
static parsec_data_copy_t h_copy[2][MTD][NTD];
static char h_opdata;

static parsec_task_t *g_task[MAXT];
static parsec_execution_stream_t *g_task_es[MAXT];
static int g_task_done[MAXT];
static int g_ntask, g_alloc, g_phase;        /* phase 0 = inside startup_fn, 1 = afterwards */
static int g_sched[MTD][NTD], g_visit[MTD][NTD];
static int g_started[2];
static int g_bad_point, g_bad_task, g_bad_vp, g_bad_stream, g_bad_ring, g_bad_distance, g_bad_op_args, g_too_many;
static int g_rank_outside, g_schedule_vp_calls, g_ndone;

static int tile_of(const parsec_task_t *t, int *m, int *n)
{
    *m = t->locals[0].value; *n = t->locals[1].value;
    return *m >= 0 && *m < MT && *n >= 0 && *n < NT;
}
static int is_local(int m, int n) { return vin.owner[m][n] == 0; }

/* ---- stubs (trusted base) ---- */
static int g_bad_mempool;
static void *h_thread_mempool_allocate(parsec_thread_mempool_t *tm)
{
    if (tm == NULL) g_bad_mempool = 1;
    g_alloc++;
    return malloc(sizeof(parsec_task_t));    /* one fresh task object per call */
}
int parsec_data_release_self_contained_data(parsec_data_t *d) { (void)d; return 0; }
parsec_data_copy_t *parsec_data_get_copy(parsec_data_t *d, uint32_t device)
{
    if (device != 0) return NULL;
    for (int w = 0; w < 2; w++) for (int m = 0; m < MTD; m++) for (int n = 0; n < NTD; n++)
        if ((char *)d == &h_token[w][m][n]) return &h_copy[w][m][n];
    return NULL;
}
static uint32_t stub_rank_of(parsec_data_collection_t *d, ...)
{
    va_list ap; va_start(ap, d);
    int m = va_arg(ap, int), n = va_arg(ap, int);
    va_end(ap);
    if (m < 0 || m >= MT || n < 0 || n >= NT) { g_rank_outside = 1; return vin.myrank + 1; }
    return vin.owner[m][n] == 0 ? vin.myrank : vin.myrank + 1;
}
static int32_t stub_vpid_of(parsec_data_collection_t *d, ...)
{
    va_list ap; va_start(ap, d);
    int m = va_arg(ap, int), n = va_arg(ap, int);
    va_end(ap);
    if (m < 0 || m >= MT || n < 0 || n >= NT) return 0;
    return vin.vp[m][n];
}
static parsec_data_t *stub_data_of(parsec_data_collection_t *d, ...)
{
    va_list ap; va_start(ap, d);
    int m = va_arg(ap, int), n = va_arg(ap, int);
    va_end(ap);
    int w = (d == (parsec_data_collection_t *)&h_src) ? 0 : 1;
    if (m < 0 || m >= MT || n < 0 || n >= NT) return NULL;
    return (parsec_data_t *)&h_token[w][m][n];
}
/* the user's operator: logs the visit */
static int h_op(parsec_execution_stream_t *es, const void *src, void *dst, void *op_data, ...)
{
    va_list ap; va_start(ap, op_data);
    int m = va_arg(ap, int), n = va_arg(ap, int);
    va_end(ap);
    (void)es;
    if (m < 0 || m >= MT || n < 0 || n >= NT) { g_bad_point = 1; return 0; }
    g_visit[m][n]++;
    if (src != (const void *)&h_payload[0][m][n] || dst != (void *)&h_payload[1][m][n] || op_data != (void *)&h_opdata)
        g_bad_op_args = 1;
    return 0;
}

static void account(parsec_task_t *t, parsec_execution_stream_t *es, int ring_vp)
{
    int m, n;
    if (t == NULL) { g_bad_ring = 1; return; }
    if (t->super.list_next != &t->super || t->super.list_prev != &t->super) g_bad_ring = 1;   /* one task per ring */
    if (g_ntask >= MAXT) { g_too_many = 1; return; }
    g_task[g_ntask] = t; g_task_done[g_ntask] = 0;
    if (!tile_of(t, &m, &n)) { g_bad_point = 1; g_task[g_ntask] = NULL; g_ntask++; return; }
    g_sched[m][n]++;
    if (t->task_class != &parsec_map_operator || t->taskpool != &h_tp.super || t->priority != 0 ||
        t->chore_mask != PARSEC_DEV_ANY_TYPE || t->repo_entry != NULL)
        g_bad_task = 1;
    if (g_phase == 0) {
        /* startup: handed to stream number <tasks already started on that vp> of the tile's virtual process */
        int v = vin.vp[m][n];
        if (v < 0 || v >= NVP) g_bad_vp = 1;
        else {
            if (g_started[v] >= h_nc[v] || es != &h_es[v][g_started[v] < MAXC ? g_started[v] : 0]) g_bad_stream = 1;
            g_started[v]++;
        }
        g_task_es[g_ntask] = es;
    } else {
        if (ring_vp != vin.vp[m][n]) g_bad_vp = 1;
        g_task_es[g_ntask] = &h_es[ring_vp][0];          /* executed by a stream of the ring's virtual process */
    }
    g_ntask++;
}
/* parsec/scheduling.c: hand a ring of ready tasks to the scheduler (C08/C16).  Here: ghost pending list. */
int __parsec_schedule(parsec_execution_stream_t *es, parsec_task_t *ring, int32_t distance)
{
    if (distance != 0) g_bad_distance = 1;
    account(ring, es, -1);
    return 0;
}
int __parsec_schedule_vp(parsec_execution_stream_t *es, parsec_task_t **rings, int32_t distance)
{
    g_schedule_vp_calls++;
    if (distance != 0) g_bad_distance = 1;
    for (int v = 0; v < NVP; v++) {
        if (NULL == rings[v]) continue;
        account(rings[v], es, v);
        rings[v] = NULL;
    }
    return 0;
}

/* ---- rely / guarantee hooks: the only shared word of the walkers is next_n ---- */
static int g_envi, g_env_claimed[NCLAIM], g_my_claimed[NCLAIM], g_my_claims, g_my_last = -1;
void verif_env_step(int op, volatile void *loc)
{
    (void)op;
#ifdef RG_ENV
    if (loc == (volatile void *)&h_tp.next_n && g_envi < NENV) {
        int k = vin.env[g_envi++];
        V_ASSUME(k <= 2);
        for (int i = 0; i < 2; i++) if (i < k) {           /* another walker: fetch_inc(next_n), owns column old+1 */
            h_tp.next_n++;
            if (h_tp.next_n >= 0 && h_tp.next_n < NCLAIM) g_env_claimed[h_tp.next_n] = 1;
        }
    }
#else
    (void)loc;
#endif
}
void verif_own_step(int op, volatile void *loc, int success)
{
    (void)op; (void)success;
    if (loc == (volatile void *)&h_tp.next_n) {
        int c = h_tp.next_n;                                 /* value right after my fetch_inc = the column I now own */
        g_my_claims++; g_my_last = c;
        if (c >= 0 && c < NCLAIM) g_my_claimed[c] = 1;
    }
}

/* ---- set-up ---- */
static void setup(void)
{
    /* trailing arrays virtual_processes[1] / execution_streams[1]: index 0 lives in an exactly-typed object (CBMC then
     * propagates constants through it); index 1 needs an over-sized heap object (CBMC drops such writes on static objects) */
#if NVP == 1
    h_ctx = malloc(sizeof(parsec_context_t));
#else
    h_ctx = malloc(sizeof(parsec_context_t) + 2 * sizeof(parsec_vp_t *));
#endif
    h_ctx->nb_vp = NVP;
    for (int v = 0; v < NVP; v++) {
        if (h_nc[v] == 1) h_vp[v] = malloc(sizeof(parsec_vp_t));
        else h_vp[v] = malloc(sizeof(parsec_vp_t) + MAXC * sizeof(parsec_execution_stream_t *));
        h_vp[v]->parsec_context = h_ctx; h_vp[v]->vp_id = v; h_vp[v]->nb_cores = h_nc[v];
        h_ctx->virtual_processes[v] = h_vp[v];
        for (int c = 0; c < MAXC && c < h_nc[v]; c++) {
            h_vp[v]->execution_streams[c] = &h_es[v][c];
            h_es[v][c].virtual_process = h_vp[v]; h_es[v][c].th_id = c;
            h_es[v][c].context_mempool = &h_tm[v][c];
            h_tm[v][c].mempool.lifo_head.data.item = NULL;
        }
    }
    for (int m = 0; m < MTD; m++) for (int n = 0; n < NTD; n++) {
        V_ASSUME(vin.vp[m][n] < NVP);                        /* vpid_of answers a virtual process of the context */
        V_ASSUME(vin.owner[m][n] <= 1);
        for (int w = 0; w < 2; w++) {
            h_copy[w][m][n].super.super.obj_reference_count = 1;
            h_copy[w][m][n].device_private = &h_payload[w][m][n];
            h_copy[w][m][n].original = (parsec_data_t *)&h_token[w][m][n];
        }
    }
#ifdef PLACE     /* optional: placement fixed per cbmc process, bit (m*NT+n) set = NOT local */
    for (int m = 0; m < MT; m++) for (int n = 0; n < NT; n++) vin.owner[m][n] = ((PLACE) >> (m * NT + n)) & 1;
#endif
#ifdef VPTAB
    for (int m = 0; m < MT; m++) for (int n = 0; n < NT; n++) vin.vp[m][n] = ((VPTAB) >> (m * NT + n)) & 1;
#endif
#ifdef MYRANK    /* fixed per cbmc process: a symbolic rank keeps every `myrank != rank_of(m,n)` of the code undecided in symex */
    vin.myrank = MYRANK;
#endif
    V_ASSUME(vin.myrank < 1000);
    int nloc = 0;
    for (int m = 0; m < MT; m++) for (int n = 0; n < NT; n++) if (is_local(m, n)) nloc++;
    h_src.super.myrank = vin.myrank; h_src.super.rank_of = stub_rank_of; h_src.super.vpid_of = stub_vpid_of;
    h_src.super.data_of = stub_data_of;
    h_src.mt = MT; h_src.nt = NT; h_src.i = 0; h_src.j = 0;
    h_src.nb_local_tiles = nloc;                             /* assumption on the descriptor: it counts its local tiles */
    h_dest = h_src;
    /* the state parsec_map_operator_New establishes (h_new) */
    h_tp.src = &h_src; h_tp.dest = &h_dest; h_tp.op = h_op; h_tp.op_data = &h_opdata; h_tp.next_n = 0;
    h_tp.super.nb_tasks = h_src.nb_local_tiles;
    h_tp.super.context = h_ctx;
}

static void run_task(int k)
{
    parsec_task_t *t = g_task[k];
    parsec_execution_stream_t *es = g_task_es[k];
    g_task_done[k] = 1;
    if (t == NULL) return;
    g_ndone++;
    /* __parsec_task_progress / __parsec_complete_execution order (C16): prepare_input, hook, complete_execution */
    int rc = data_lookup(es, t);
    V_ASSERT(rc == PARSEC_HOOK_RETURN_DONE, "C22.data_lookup.post.returns_DONE");
    rc = hook_of(es, t);
    V_ASSERT(rc == PARSEC_HOOK_RETURN_DONE, "C22.hook_of.post.returns_DONE");
    rc = complete_hook(es, t);
    V_ASSERT(rc == PARSEC_HOOK_RETURN_DONE, "C22.complete_hook.post.returns_DONE");
}

/* ------------------------------------------------------------------ top-level protocol */
static void startup_part(void)
{
    parsec_task_t *startup_list = (parsec_task_t *)&h_opdata;

    g_phase = 0;
    parsec_map_operator_startup_fn(h_ctx, &h_tp.super, &startup_list);
    g_phase = 1;

    V_ASSERT(startup_list == NULL, "C22.startup_fn.post.startup_list_empty_tasks_go_through_schedule");
    V_ASSERT(!g_bad_stream && g_started[0] <= NC0 && (NVP < 2 || g_started[1] <= NC1),
             "C22.startup_fn.post.at_most_nb_cores_walkers_per_vp_each_on_its_own_stream_of_the_tiles_vp");
    V_ASSERT(g_alloc == g_ntask, "C22.startup_fn.post.every_created_task_is_scheduled");
    {   /* one walker per column, started at the column's first local tile; claimed columns without walker are empty */
        int ok_first = 1, ok_one = 1, ok_claimed = 1;
        for (int n = 0; n < NT; n++) {
            int walkers = 0, first = -1, local = 0;
            for (int m = 0; m < MT; m++) {
                if (is_local(m, n)) { local++; if (first < 0) first = m; }
                walkers += g_sched[m][n];
                if (g_sched[m][n] && first != m) ok_first = 0;
            }
            if (walkers > 1) ok_one = 0;
            if (n <= h_tp.next_n && local > 0 && walkers == 0) ok_claimed = 0;
            if (n > h_tp.next_n && walkers != 0) ok_claimed = 0;
        }
        V_ASSERT(ok_one, "C22.startup_fn.post.at_most_one_walker_per_column");
        V_ASSERT(ok_first, "C22.startup_fn.post.walker_starts_at_first_local_tile_of_its_column");
        V_ASSERT(ok_claimed, "C22.startup_fn.post.columns_claimed_through_next_n_have_a_walker_or_no_local_tile");
    }

}

/* startup_fn alone: its own contract */
void h_startup(void)
{
    vin_load();
    setup();
    startup_part();
    V_CANARY("startup");
}

void h_protocol(void)
{
    vin_load();
    setup();
    startup_part();

    for (int step = 0; step < MAXT; step++) {
        int k = -1;
#if ORDER == 0
        for (int i = MAXT - 1; i >= 0; i--) if (i < g_ntask && !g_task_done[i]) k = i;      /* oldest pending */
#elif ORDER == 1
        for (int i = 0; i < MAXT; i++) if (i < g_ntask && !g_task_done[i]) k = i;           /* newest pending */
#else
        for (int i = 0; i < MAXT; i++) if (i < g_ntask && !g_task_done[i]) k = i;
        if (k >= 0) { k = vin.choice[step]; V_ASSUME(k >= 0 && k < MAXT && k < g_ntask && !g_task_done[k]); }
#endif
        if (k < 0) break;
        run_task(k);
    }

    int pending = 0, nloc = 0;
    for (int i = 0; i < MAXT; i++) if (i < g_ntask && !g_task_done[i]) pending++;
    V_ASSERT(!g_too_many && pending == 0, "C22.map_protocol.post.terminates_no_more_tasks_than_tiles");
    V_ASSERT(!g_bad_point && !g_rank_outside, "C22.map_protocol.post.no_tile_outside_the_matrix_considered");
    for (int m = 0; m < MT; m++) for (int n = 0; n < NT; n++) {
        if (is_local(m, n)) {
            nloc++;
            V_ASSERT(g_visit[m][n] == 1, "C22.map_protocol.post.operator_invoked_exactly_once_on_every_local_tile");
            V_ASSERT(g_sched[m][n] == 1, "C22.map_protocol.post.exactly_one_task_per_local_tile");
        } else {
            V_ASSERT(g_visit[m][n] == 0 && g_sched[m][n] == 0, "C22.map_protocol.post.no_task_or_operator_call_on_a_non_local_tile");
        }
        V_ASSERT(h_copy[0][m][n].super.super.obj_reference_count == 1 && h_copy[1][m][n].super.super.obj_reference_count == 1,
                 "C22.release_deps.post.data_copy_references_taken_by_data_lookup_are_released");
    }
    V_ASSERT(g_ntask == nloc && g_ntask == h_tp.super.nb_tasks && g_alloc == g_ntask,
             "C22.map_protocol.post.tasks_created_equals_nb_local_tiles_equals_nb_tasks");
    V_ASSERT(!g_bad_op_args, "C22.hook_of.post.operator_gets_src_and_dest_data_of_its_tile_and_op_data");
    V_ASSERT(!g_bad_task && !g_bad_ring && !g_bad_distance,
             "C22.add_task_to_list.post.one_task_per_ring_with_class_taskpool_priority_of_the_map_operator");
    V_ASSERT(!g_bad_vp, "C22.iterate_successors.post.successor_put_on_ring_of_its_tiles_vp");
    V_ASSERT(g_schedule_vp_calls == g_ndone, "C22.release_deps.post.rings_handed_to_scheduler_once_per_completed_task");
    V_CANARY("protocol");
}

/* ------------------------------------------------------------------ iterate_successors, per-function contract */
static int g_on_calls, g_on_bad, g_on_m, g_on_n, g_on_vp;
static parsec_task_t h_this;
static char h_cookie, h_d0, h_d1;
static parsec_ontask_iterate_t
h_ontask(parsec_execution_stream_t *es, const parsec_task_t *nc, const parsec_task_t *oc, const parsec_dep_t *dep,
         parsec_dep_data_description_t *data, int rank_src, int rank_dst, int vpid_dst,
         data_repo_t *repo, parsec_key_t key, void *arg)
{
    g_on_calls++;
    g_on_m = nc->locals[0].value; g_on_n = nc->locals[1].value; g_on_vp = vpid_dst;
    if (es != &h_es[0][0] || oc != &h_this || dep != &flow_of_map_operator_dep_out || data != NULL ||
        rank_src != (int)vin.myrank || rank_dst != (int)vin.myrank || repo != NULL || key != 0 || arg != (void *)&h_cookie ||
        nc->task_class != &parsec_map_operator || nc->taskpool != &h_tp.super || nc->priority != 0 ||
        nc->chore_mask != PARSEC_DEV_ANY_TYPE ||
        nc->data[0].data_in != (parsec_data_copy_t *)&h_d0 || nc->data[1].data_in != (parsec_data_copy_t *)&h_d1 ||
        nc->data[0].source_repo_entry != NULL || nc->data[1].source_repo_entry != NULL)
        g_on_bad = 1;
    return PARSEC_ITERATE_STOP;
}

void h_iter(void)
{
    vin_load();
    setup();
    V_ASSUME(vin.m >= 0 && vin.m < MT && vin.n >= 0 && vin.n < NT);
    V_ASSUME(is_local(vin.m, vin.n));                         /* tasks exist for local tiles only                    */
    V_ASSUME(vin.next_n >= vin.n && vin.next_n <= NT + 1);    /* my column has been claimed                          */
    h_tp.next_n = vin.next_n;
    h_this.locals[0].value = vin.m; h_this.locals[1].value = vin.n;
    h_this.taskpool = &h_tp.super; h_this.task_class = &parsec_map_operator;
    h_this.data[0].data_out = (parsec_data_copy_t *)&h_d0; h_this.data[1].data_out = (parsec_data_copy_t *)&h_d1;

    iterate_successors(&h_es[0][0], &h_this, vin.action_mask, h_ontask, &h_cookie);

    /* specification: next local tile of the column walk */
    int below = -1;
    for (int m = MT - 1; m >= 0; m--) if (m > vin.m && is_local(m, vin.n)) below = m;
    V_ASSERT(g_on_calls <= 1, "C22.iterate_successors.post.at_most_one_successor");
    V_ASSERT(!g_on_bad && !g_rank_outside, "C22.iterate_successors.post.successor_description_and_ontask_arguments");
    if (g_on_calls == 1) {
        V_ASSERT(g_on_m >= 0 && g_on_m < MT && g_on_n >= 0 && g_on_n < NT && is_local(g_on_m, g_on_n),
                 "C22.iterate_successors.post.successor_is_a_local_tile_of_the_matrix");
        if (g_on_m >= 0 && g_on_m < MT && g_on_n >= 0 && g_on_n < NT)
            V_ASSERT(g_on_vp == vin.vp[g_on_m][g_on_n], "C22.iterate_successors.post.successor_sent_to_vp_of_its_tile");
    }
    if (below >= 0) {
        V_ASSERT(g_on_calls == 1 && g_on_m == below && g_on_n == vin.n,
                 "C22.iterate_successors.post.successor_is_next_local_tile_below_in_the_same_column");
        V_ASSERT(g_my_claims == 0, "C22.iterate_successors.post.no_column_claimed_while_own_column_not_exhausted");
    } else {
        V_ASSERT(g_my_claims >= 1, "C22.iterate_successors.post.new_column_claimed_through_atomic_next_n_when_own_column_exhausted");
        /* every column I claimed and left behind has no local tile; the successor is the FIRST local tile of the last
         * column I claimed; never a column claimed by the environment, never one claimed before the call */
        int ok_left = 1;
        for (int c = 0; c < NT; c++) {
            int loc = 0;
            for (int m = 0; m < MT; m++) if (is_local(m, c)) loc++;
            if (g_my_claimed[c] && !(g_on_calls == 1 && c == g_on_n) && loc > 0) ok_left = 0;
        }
        V_ASSERT(ok_left, "C22.iterate_successors.post.no_local_tile_in_a_column_claimed_and_left");
        if (g_on_calls == 1) {
            int first = -1;
            for (int m = MT - 1; m >= 0; m--) if (g_on_n >= 0 && g_on_n < NT && is_local(m, g_on_n)) first = m;
            V_ASSERT(g_on_n >= 0 && g_on_n < NCLAIM && g_my_claimed[g_on_n] && g_on_n == g_my_last,
                     "C22.iterate_successors.post.successor_column_was_claimed_by_this_call");
            V_ASSERT(g_on_n > vin.next_n && (g_on_n < 0 || g_on_n >= NCLAIM || !g_env_claimed[g_on_n]),
                     "C22.iterate_successors.guar.never_enters_a_column_claimed_by_another_walker");
            V_ASSERT(g_on_m == first, "C22.iterate_successors.post.successor_is_first_local_tile_of_the_claimed_column");
        } else {
            V_ASSERT(g_my_last >= NT, "C22.iterate_successors.post.walker_stops_only_after_claiming_past_the_last_column");
        }
    }
#ifndef RG_ENV
    {   /* without interference the final next_n is determined */
        int32_t expect = vin.next_n;
        if (below < 0) {
            int c = vin.next_n + 1, found = 0;
            for (int i = 0; i < NT + 2; i++) if (!found && c < NT) {
                int loc = 0;
                for (int m = 0; m < MT; m++) if (is_local(m, c)) loc++;
                if (loc) found = 1; else c++;
            }
            expect = found ? c : (vin.next_n + 1 > NT ? vin.next_n + 1 : NT);
            V_ASSERT(V_IFF(found, g_on_calls == 1) && (!found || g_on_n == c),
                     "C22.iterate_successors.post.successor_in_first_non_empty_unclaimed_column");
        }
        V_ASSERT(h_tp.next_n == expect, "C22.iterate_successors.post.next_n_is_last_claimed_column");
    }
#else
    V_ASSERT(h_tp.next_n >= vin.next_n + g_my_claims, "C22.iterate_successors.guar.next_n_only_incremented");
#endif
    V_CANARY("iter");
}

/* ------------------------------------------------------------------ class descriptor wiring */
void h_wiring(void)
{
    vin_load();
    V_ASSERT(parsec_map_operator.prepare_input == data_lookup && parsec_map_operator.incarnations == __parsec_map_operator_chores &&
             __parsec_map_operator_chores[0].hook == hook_of && __parsec_map_operator_chores[0].type == PARSEC_DEV_CPU &&
             __parsec_map_operator_chores[0].evaluate == NULL && __parsec_map_operator_chores[1].type == PARSEC_DEV_NONE &&
             parsec_map_operator.complete_execution == complete_hook && parsec_map_operator.release_deps == release_deps &&
             parsec_map_operator.iterate_successors == iterate_successors,
             "C22.parsec_map_operator.inv.class_descriptor_names_the_functions_of_the_protocol");
    V_ASSERT(parsec_map_operator.nb_parameters == 2 && parsec_map_operator.nb_locals == 2 && parsec_map_operator.task_class_id == 0 &&
             parsec_map_operator.dependencies_goal == 0x1,
             "C22.parsec_map_operator.inv.two_locals_row_and_column");
    V_CANARY("wiring");
}

/* ------------------------------------------------------------------ parsec_map_operator_New */
#ifdef WITH_OBJ
static int g_reserve_calls;
int parsec_taskpool_reserve_id(parsec_taskpool_t *tp) { g_reserve_calls++; tp->taskpool_id = 7; return 7; }
int32_t parsec_add_fetch_runtime_task(parsec_taskpool_t *tp, int32_t n) { (void)tp; return n; }
void h_new(void)
{
    vin_load();
    V_ASSUME(vin.nb_local_tiles >= 0);
    h_src.nb_local_tiles = vin.nb_local_tiles;
    h_src.mt = MT; h_src.nt = NT;
    parsec_taskpool_t *r = parsec_map_operator_New(&h_src, &h_dest, h_op, &h_opdata);
    parsec_map_operator_taskpool_t *tp = (parsec_map_operator_taskpool_t *)r;
    V_ASSERT(r != NULL, "C22.parsec_map_operator_New.post.returns_a_taskpool");
    V_ASSERT(tp->src == &h_src && tp->dest == &h_dest && tp->op == h_op && tp->op_data == (void *)&h_opdata,
             "C22.parsec_map_operator_New.post.src_dest_operator_op_data_stored_unchanged");
    V_ASSERT(tp->next_n == 0, "C22.parsec_map_operator_New.post.next_n_starts_at_column_0");
    V_ASSERT(r->nb_tasks == vin.nb_local_tiles, "C22.parsec_map_operator_New.post.nb_tasks_is_number_of_local_tiles_of_src");
    V_ASSERT(r->startup_hook == parsec_map_operator_startup_fn && r->nb_task_classes == 1 &&
             r->task_classes_array != NULL && r->task_classes_array[0] == &parsec_map_operator &&
             r->nb_pending_actions == 1 && r->taskpool_type == PARSEC_TASKPOOL_TYPE_PTG &&
             r->update_nb_runtime_task == parsec_add_fetch_runtime_task,
             "C22.parsec_map_operator_New.post.startup_hook_task_class_and_pending_action_installed");
    V_ASSERT(g_reserve_calls == 1, "C22.parsec_map_operator_New.post.taskpool_id_reserved_once");
    V_CANARY("new");
}
#endif
