/* Native demonstration of known finding C22-reduce-bodies-never-call-operator: the body hooks generated (by the real build)
 * for reduce_col.jdf never invoke the operator given to parsec_reduce_col_New.
 * Build/run: see run.sh (REPO=/repo by default).  Exit 1 = the operator was not invoked (finding reproduced). */
#include GENERATED_C
#include <stdio.h>
#include <stdlib.h>
#undef operation
#undef op_data
#undef src
#undef dest
static int calls;
static int count_op(struct parsec_execution_stream_s *es, const void *s, void *d, void *ud, ...)
{ (void)es; (void)s; (void)d; (void)ud; calls++; return 0; }
int main(void)
{
    __parsec_reduce_col_internal_taskpool_t *tp = calloc(1, sizeof(*tp));
    __parsec_reduce_col_reduce_col_task_t *t = calloc(1, sizeof(*t));
    parsec_execution_stream_t *es = calloc(1, sizeof(*es));
    parsec_data_copy_t *top = calloc(1, sizeof(*top)), *bottom = calloc(1, sizeof(*bottom));
    static double a[4], b[4];
    top->device_private = a; bottom->device_private = b;
    tp->super._g_operation = (parsec_operator_t)count_op;
    t->taskpool = (parsec_taskpool_t *)tp;
    t->locals.level.value = 1; t->locals.index.value = 0; t->locals.col.value = 0;
    t->data._f_Rtop.data_in = top; t->data._f_Rbottom.data_in = bottom;
    int rc = hook_of_reduce_col_reduce_col_CPU(es, t);
    printf("hook returned %d, operator invoked %d time(s)\n", rc, calls);
    if (calls != 1) { printf("FINDING REPRODUCED: a reduction step of reduce_col does not combine its two inputs\n"); return 1; }
    return 0;
}
