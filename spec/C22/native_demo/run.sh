#!/bin/sh
# usage: REPO=/repo BLD=/repo/_build ./run.sh
REPO=${REPO:-/repo}; BLD=${BLD:-$REPO/_build}
T=$(mktemp -d /tmp/c22demo.XXXXXX)
gcc -w -O0 -std=gnu11 -D_GNU_SOURCE -DNDEBUG -mcx16 -DGENERATED_C="\"$BLD/parsec/data_dist/matrix/reduce_col.c\"" \
  -I$BLD/parsec/include -I$BLD -I$REPO/parsec/include -I$REPO -I$BLD/parsec/data_dist/matrix -I/usr/lib/x86_64-linux-gnu/openmpi/include \
  "$(dirname "$0")/reduce_demo.c" -o $T/demo -L$BLD/parsec -lparsec -Wl,-rpath,$BLD/parsec -lmpi -lm && $T/demo; rc=$?
rm -rf $T; exit $rc
