/* C22, reduction part: the body hook the PTG compiler generates for the inner class of the REAL
 * parsec/data_dist/matrix/reduce_col.jdf / reduce_row.jdf (cut by name, verbatim).
 * Property clause: "the row/column reductions ... combine every tile exactly once": a reduction step must hand its two
 * inputs to the user's operator exactly once.  The obligation FAILS on the pinned tree: the bodies of reduce_col /
 * reduce_row (and of reduce.jdf's reduce) only print a line; the operator given to parsec_reduce_col_New /
 * parsec_reduce_row_New is stored in the taskpool and never invoked (known finding C22-reduce-bodies-never-call-operator). */
#include "verif.h"
#include "parsec/parsec_config.h"
#include "parsec/parsec_internal.h"
#include "parsec/execution_stream.h"
#include "parsec/data_distribution.h"
#include "parsec/data_dist/matrix/matrix.h"
#include <stdarg.h>
int parsec_debug_output;
#ifndef VERIF_REPLAY
void parsec_output(int id, const char *fmt, ...) { (void)id; (void)fmt; }
char *parsec_task_snprintf(char *s, size_t n, const parsec_task_t *t) { (void)n; (void)t; return s; }
int printf(const char *fmt, ...) { (void)fmt; return 0; }
#endif
#include GEN_CUT

#define CAT_(a, b) a##b
#define CAT(a, b) CAT_(a, b)
#define TASK_T  CAT(CAT(CAT(__parsec_, JDF), CAT(_, CLS)), _task_t)
#define TP_T    CAT(CAT(__parsec_, JDF), _internal_taskpool_t)

struct vin { int32_t level, index, col; } vin;
#include "verif_vin.h"
static int g_calls, g_bad;
static int h_opdata;
static char h_top[8], h_bottom[8];
static int h_op(struct parsec_execution_stream_s *e, const void *s_, void *d_, void *ud_, ...)
{
    (void)e;
    g_calls++;
    if (!((s_ == (void *)h_bottom && d_ == (void *)h_top) || (s_ == (void *)h_top && d_ == (void *)h_bottom)) || ud_ != (void *)&h_opdata)
        g_bad = 1;
    return 0;
}
static TP_T tp;
static TASK_T task;
static parsec_execution_stream_t es0;
static parsec_data_copy_t c_top, c_bottom;

void h_reduce_hook(void)
{
    vin_load();
    V_ASSUME(vin.level >= 1 && vin.level < 30 && vin.index >= 0 && vin.col >= 0);
    tp.super._g_operation = (parsec_operator_t)h_op;
    tp.super._g_op_data = &h_opdata;
    task.taskpool = &tp.super.super;
    task.locals.level.value = vin.level; task.locals.index.value = vin.index; task.locals.COLPAR.value = vin.col;
    c_top.device_private = h_top; c_bottom.device_private = h_bottom;
    task.data._f_Rtop.data_in = &c_top; task.data._f_Rbottom.data_in = &c_bottom;

    int rc = HOOK_FN(&es0, &task);

    V_ASSERT(rc == PARSEC_HOOK_RETURN_DONE, "C22.reduce_hook.post.answers_DONE");
    V_ASSERT(g_calls == 1, "C22.reduce_hook.post.operator_invoked_exactly_once_on_the_two_inputs");
    V_ASSERT(!g_bad, "C22.reduce_hook.post.operator_gets_the_two_tiles_and_user_data");
    V_CANARY("reduce_hook");
}
