/* C22, wrapper part: contracts on the real parsec/data_dist/matrix/apply_wrapper.c (included verbatim).
 *   parsec_apply_New: NULL and nothing created for a uplo outside {FULL, UPPER, LOWER}; otherwise the generated constructor
 *     parsec_apply_new (stub recording its arguments; its own contract: job apply.new) is called exactly once with uplo, A,
 *     operation, op_args UNCHANGED, the default arena datatype of that taskpool is defined exactly once as a square of A->mb
 *     elements of the datatype that corresponds to A->mtype, and that taskpool is returned.
 *   parsec_apply: PARSEC_ERR_BAD_PARAM and nothing created / run for a bad uplo; otherwise the taskpool is added to the
 *     context, the context started, waited for, and the taskpool destroyed -- exactly once each, in this order.
 * "apply.h" is generated on this run from $VERIF_REPO's apply.jdf by the rebuilt PTG compiler (spec.py). */
#include "verif.h"
#include "parsec/parsec_config.h"
#include "parsec/parsec_internal.h"
#include "parsec/runtime.h"

static int g_seq, g_new, g_def, g_add, g_start, g_wait, g_free, g_undef, g_order_bad;
static int g_new_ul; static void *g_new_A, *g_new_op, *g_new_args;
static void *g_def_adt; static parsec_datatype_t g_def_type; static unsigned g_def_m;
static void *g_add_ctx, *g_add_tp, *g_free_tp, *g_undef_adt;

#include "parsec/data_dist/matrix/apply_wrapper.c"

static parsec_apply_taskpool_t h_tp;
parsec_apply_taskpool_t *parsec_apply_new(int ul, parsec_tiled_matrix_t *A, parsec_tiled_matrix_unary_op_t op, void *args)
{ g_new++; g_new_ul = ul; g_new_A = A; g_new_op = (void *)op; g_new_args = args; return &h_tp; }
int parsec_matrix_adt_define_square(parsec_arena_datatype_t *adt, parsec_datatype_t oldtype, unsigned int m)
{ g_def++; g_def_adt = adt; g_def_type = oldtype; g_def_m = m; return 0; }
int parsec_matrix_arena_datatype_destruct_free_type(parsec_arena_datatype_t *adt)
{ g_undef++; g_undef_adt = adt; if (g_seq != 3) g_order_bad = 1; return 0; }
int parsec_context_add_taskpool(parsec_context_t *c, parsec_taskpool_t *tp)
{ g_add++; g_add_ctx = c; g_add_tp = tp; if (g_seq != 0) g_order_bad = 1; g_seq = 1; return 0; }
int parsec_context_start(parsec_context_t *c) { (void)c; g_start++; if (g_seq != 1) g_order_bad = 1; g_seq = 2; return 0; }
int parsec_context_wait(parsec_context_t *c) { (void)c; g_wait++; if (g_seq != 2) g_order_bad = 1; g_seq = 3; return 0; }
void parsec_taskpool_free(parsec_taskpool_t *tp) { g_free++; g_free_tp = tp; if (g_seq != 3) g_order_bad = 1; g_seq = 4; }

struct vin { int32_t ul; int32_t mtype; int32_t mb; } vin;
#include "verif_vin.h"
static parsec_tiled_matrix_t h_A;
static int h_args;
static parsec_context_t h_ctx;
static int h_op(struct parsec_execution_stream_s *es, const parsec_tiled_matrix_t *d, void *data, int u, int m, int n, void *a)
{ (void)es; (void)d; (void)data; (void)u; (void)m; (void)n; (void)a; return 0; }

static int valid_ul(int u) { return u == PARSEC_MATRIX_FULL || u == PARSEC_MATRIX_UPPER || u == PARSEC_MATRIX_LOWER; }
static parsec_datatype_t spec_type(int mtype)
{
    switch (mtype) {
    case PARSEC_MATRIX_COMPLEX_DOUBLE: return parsec_datatype_double_complex_t;
    case PARSEC_MATRIX_COMPLEX_FLOAT:  return parsec_datatype_complex_t;
    case PARSEC_MATRIX_DOUBLE:         return parsec_datatype_double_t;
    case PARSEC_MATRIX_FLOAT:          return parsec_datatype_float_t;
    default:                           return parsec_datatype_int_t;
    }
}
static void check_created(void)
{
    V_ASSERT(g_new == 1, "C22.apply_New.post.generated_constructor_called_exactly_once");
    V_ASSERT(g_new_ul == vin.ul && g_new_A == (void *)&h_A && g_new_op == (void *)h_op && g_new_args == (void *)&h_args,
             "C22.apply_New.post.uplo_matrix_operator_arguments_passed_unchanged");
    V_ASSERT(g_def == 1 && g_def_adt == (void *)&h_tp.arenas_datatypes[PARSEC_apply_DEFAULT_ADT_IDX],
             "C22.apply_New.post.default_datatype_of_this_taskpool_defined_once");
    V_ASSERT(g_def_type == spec_type(vin.mtype) && g_def_m == (unsigned)vin.mb,
             "C22.apply_New.post.tile_datatype_matches_matrix_element_type_and_tile_size");
}

void h_apply_New(void)
{
    vin_load();
    h_A.mtype = vin.mtype; h_A.mb = vin.mb;
    parsec_taskpool_t *tp = parsec_apply_New(vin.ul, &h_A, h_op, &h_args);
    if (!valid_ul(vin.ul)) {
        V_ASSERT(tp == NULL && g_new == 0 && g_def == 0, "C22.apply_New.post.bad_uplo_rejected_nothing_created");
    } else {
        V_ASSERT(tp == (parsec_taskpool_t *)&h_tp, "C22.apply_New.post.returns_the_created_taskpool");
        check_created();
    }
    V_ASSERT(g_add == 0 && g_start == 0 && g_wait == 0 && g_free == 0, "C22.apply_New.post.nothing_run_or_destroyed");
    V_CANARY("apply_New");
}

void h_apply(void)
{
    vin_load();
    h_A.mtype = vin.mtype; h_A.mb = vin.mb;
    int rc = parsec_apply(&h_ctx, vin.ul, &h_A, h_op, &h_args);
    if (!valid_ul(vin.ul)) {
        V_ASSERT(rc == PARSEC_ERR_BAD_PARAM, "C22.apply.post.bad_uplo_answers_BAD_PARAM");
        V_ASSERT(g_new == 0 && g_add == 0 && g_start == 0 && g_wait == 0 && g_free == 0, "C22.apply.post.bad_uplo_nothing_created_or_run");
    } else {
        V_ASSERT(rc == PARSEC_SUCCESS, "C22.apply.post.answers_SUCCESS");
        check_created();
        V_ASSERT(g_add == 1 && g_add_ctx == (void *)&h_ctx && g_add_tp == (void *)&h_tp, "C22.apply.post.taskpool_added_to_the_context_once");
        V_ASSERT(g_start == 1 && g_wait == 1, "C22.apply.post.context_started_and_waited_once");
        V_ASSERT(g_free == 1 && g_free_tp == (void *)&h_tp && g_undef == 1 &&
                 g_undef_adt == (void *)&h_tp.arenas_datatypes[PARSEC_apply_DEFAULT_ADT_IDX], "C22.apply.post.taskpool_destroyed_once_after_completion");
        V_ASSERT(!g_order_bad && g_seq == 4, "C22.apply.post.order_add_start_wait_destroy");
    }
    V_CANARY("apply");
}
