/* C22: execution spaces of the three task classes of the REAL parsec/data_dist/matrix/apply.jdf, written by hand from
 * the JDF text, in the macro vocabulary of spec/C01/h_gen.c (included there through CASE_HEADER).
 *
 *   globals: g[0] = uplo, g[1] = descA->mt, g[2] = descA->nt   (matrix_upper / matrix_lower: hidden, declared defaults)
 *   APPLY_L(m, n): m = 1 .. ((uplo == matrix_upper) ? 0 : mt-1),  n = 0 .. (m < nt ? m-1 : nt-1)      : descA(m, n)
 *   APPLY_U(m, n): m = 0 .. mt-1,  n = m+1 .. ((uplo == matrix_lower) ? 0 : nt-1)                     : descA(m, n)
 *   APPLY_DIAG(k): k = 0 .. (mt < nt ? mt-1 : nt-1)                                                    : descA(k, k)
 *   every flow reads descA directly: every instance is a startup task.
 */
#include "parsec/data_dist/matrix/matrix.h"
#define NPAR 2
#define OFF_B 0
#define DC_T parsec_tiled_matrix_t
#define DC_BASE(d) ((d).super)
#define SPEC_DOMAIN(g) (((g)[0] == PARSEC_MATRIX_FULL || (g)[0] == PARSEC_MATRIX_UPPER || (g)[0] == PARSEC_MATRIX_LOWER) && \
                        (g)[1] >= 0 && (g)[1] <= BOX && (g)[2] >= 0 && (g)[2] <= BOX)

static int space_L(int ul, int mt, int nt, int m, int n)
{ return m >= 1 && m <= ((ul == PARSEC_MATRIX_UPPER) ? 0 : mt - 1) && n >= 0 && n <= (m < nt ? m - 1 : nt - 1); }
static int space_U(int ul, int mt, int nt, int m, int n)
{ return m >= 0 && m <= mt - 1 && n >= m + 1 && n <= ((ul == PARSEC_MATRIX_LOWER) ? 0 : nt - 1); }
static int space_D(int ul, int mt, int nt, int m, int n)
{ (void)ul; return m == n && m >= 0 && m <= (mt < nt ? mt - 1 : nt - 1); }
/* the region parsec_apply is asked for (property statement): tiles of the mt x nt matrix, all / on or above / on or below the diagonal */
static int spec_region(int ul, int mt, int nt, int m, int n)
{
    if (!(m >= 0 && m < mt && n >= 0 && n < nt)) return 0;
    if (ul == PARSEC_MATRIX_UPPER) return n >= m;
    if (ul == PARSEC_MATRIX_LOWER) return m >= n;
    return ul == PARSEC_MATRIX_FULL;
}

#define IDX_A 0
#if CASE == 1          /* APPLY_L */
#define IDX_B 1
static int spec_in_space(int a, int b, int c) { (void)c; return space_L(vin.g[0], vin.g[1], vin.g[2], a, b); }
#define BODY_UPLO(u) PARSEC_MATRIX_FULL      /* an off-diagonal tile is handed over whole */
#elif CASE == 2        /* APPLY_U */
#define IDX_B 1
static int spec_in_space(int a, int b, int c) { (void)c; return space_U(vin.g[0], vin.g[1], vin.g[2], a, b); }
#define BODY_UPLO(u) PARSEC_MATRIX_FULL
#elif CASE == 3        /* APPLY_DIAG: one parameter k; box point (k, k) */
#define IDX_B 0
static int spec_in_space(int a, int b, int c) { (void)c; return space_D(vin.g[0], vin.g[1], vin.g[2], a, b); }
#define BODY_UPLO(u) (u)                     /* a diagonal tile is handed over with the requested part */
#else
#error unknown CASE
#endif
static int spec_guard(int a, int b, int c) { (void)a; (void)b; (void)c; return 1; }
static int spec_derived_ok(const parsec_task_t *t) { (void)t; return 1; }
#define AFF_X(a, b, c) (a)
#define AFF_Y(a, b, c) (b)
static int h_operation(struct parsec_execution_stream_s *es, const parsec_tiled_matrix_t *d, void *data, int ul, int m, int n, void *args);
static int h_op_args_obj;
#define SET_GLOBALS(s, d, g) do { (s)._g_uplo = (g)[0]; (s)._g_descA = (d); (d)->mt = (g)[1]; (d)->nt = (g)[2]; \
        (s)._g_matrix_upper = PARSEC_MATRIX_UPPER; (s)._g_matrix_lower = PARSEC_MATRIX_LOWER; \
        (s)._g_operation = h_operation; (s)._g_op_args = &h_op_args_obj; } while (0)
