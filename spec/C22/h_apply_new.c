/* C22, apply part: the generated constructor parsec_apply_new (cut by name from the C unit the PTG compiler emits for the
 * real apply.jdf): the four user arguments reach the taskpool's globals unchanged and the hidden globals hold the
 * defaults declared in the JDF (matrix_upper = PARSEC_MATRIX_UPPER, matrix_lower = PARSEC_MATRIX_LOWER) -- the values the
 * execution-space specification of apply_cases.h relies on. */
#include "verif.h"
#include "parsec/parsec_config.h"
#include "parsec/parsec_internal.h"
#include "parsec/data_dist/matrix/matrix.h"
#include GEN_CUT

/* class descriptor of the internal taskpool type, already initialised, EMPTY constructor chain (the real chain --
 * parsec_taskpool_t's constructor and __parsec_apply_internal_constructor -- sets up task classes, repositories, arenas:
 * outside this contract; trusted) */
static parsec_construct_t h_no_ctor[1] = { NULL };
parsec_class_t __parsec_c22apply_internal_taskpool_t_class =
    { "__parsec_c22apply_internal_taskpool_t", NULL, NULL, NULL, 1, 0, h_no_ctor, NULL, sizeof(__parsec_c22apply_internal_taskpool_t) };
static int g_reserve;
int parsec_taskpool_reserve_id(parsec_taskpool_t *tp) { (void)tp; g_reserve++; return 1; }

struct vin { int32_t ul; } vin;
#include "verif_vin.h"
static parsec_tiled_matrix_t h_A;
static int h_args;
static int h_op(struct parsec_execution_stream_s *es, const parsec_tiled_matrix_t *d, void *data, int u, int m, int n, void *a)
{ (void)es; (void)d; (void)data; (void)u; (void)m; (void)n; (void)a; return 0; }

void h_new(void)
{
    vin_load();
    parsec_c22apply_taskpool_t *tp = parsec_c22apply_new(vin.ul, &h_A, h_op, &h_args);
    V_ASSERT(tp != NULL, "C22.apply_new.post.taskpool_created");
    V_ASSERT(tp->_g_uplo == vin.ul && tp->_g_descA == &h_A && tp->_g_operation == h_op && tp->_g_op_args == (void *)&h_args,
             "C22.apply_new.post.user_arguments_reach_the_globals_unchanged");
    V_ASSERT(tp->_g_matrix_upper == PARSEC_MATRIX_UPPER && tp->_g_matrix_lower == PARSEC_MATRIX_LOWER,
             "C22.apply_new.post.hidden_globals_hold_their_declared_defaults");
    V_ASSERT(tp->super.startup_hook == (parsec_startup_fn_t)c22apply_startup, "C22.apply_new.post.startup_hook_installed");
    V_ASSERT(g_reserve == 1, "C22.apply_new.post.taskpool_id_reserved_once");
    V_CANARY("new");
}
