import os, sys, importlib.util
from vlib import Job

HERE = os.path.dirname(os.path.abspath(__file__))
_ap = importlib.util.spec_from_file_location("c22_apply_part", os.path.join(HERE, "apply_part.py"))
apply_part = importlib.util.module_from_spec(_ap)
_ap.loader.exec_module(apply_part)

META = dict(
    level="other",
    functions=["parsec_map_operator_startup_fn", "iterate_successors (map_operator.c)", "add_task_to_list (map_operator.c, as called "
               "by startup_fn)", "parsec_map_operator_New", "__parsec_map_operator_constructor",
               "class descriptor parsec_map_operator (wiring of data_lookup / hook_of / complete_hook / release_deps / iterate_successors)",
               "apply_APPLY_{L,U,DIAG}_internal_init, counting part (generated from the real apply.jdf by the compiler rebuilt on this run)",
               "__jdf2c_startup_APPLY_{L,U,DIAG} (generated)", "hook_of_apply_APPLY_{L,U,DIAG}_CPU (generated body hooks)",
               "parsec_apply_new (generated constructor)", "parsec_apply_New, parsec_apply, parsec_apply_Destruct (apply_wrapper.c)",
               "hook_of_reduce_col_reduce_col_CPU, hook_of_reduce_row_reduce_row_CPU (generated body hooks of reduce_col.jdf / reduce_row.jdf; "
               "obligation fails: known finding)"],
    explanation="Function-level contracts on the real hand-written map operator (map_operator.c included verbatim). "
                "(1) startup_fn, for every placement (local / not local per tile) and vpid_of table of an MT x NT src matrix "
                "(shapes enumerated per cbmc process), 1 virtual process with 1 or 2 cores: at most nb_cores tasks, each on its own "
                "stream of the tile's vp, at most ONE walker per column, started at the column's FIRST local tile, every column "
                "claimed through next_n has a walker or no local tile, columns beyond next_n are untouched, startup_list left empty. "
                "(2) iterate_successors, for every task (m,n), every next_n >= n and every placement: at most one successor, it is "
                "the next local tile below in the same column, else the first local tile of the first non-empty column claimed by "
                "this call through the atomic next_n; every claimed-and-left column has no local tile; the walker stops only after "
                "claiming past the last column; also under rely/guarantee interference (other walkers fetch-and-increment next_n "
                "before and after each of my atomic operations): never a column claimed by the environment. "
                "(3) parsec_map_operator_New stores src/dest/op/op_data unchanged, next_n = 0, nb_tasks = src->nb_local_tiles, "
                "installs the startup hook and the task class. "
                "From (1)-(3) 'every local tile is visited exactly once, nb_tasks tasks are created' follows by induction over the "
                "walk (each claimed non-empty column has exactly one walker positioned at its first unvisited local tile); this "
                "induction and the whole-protocol harness h_protocol (kept in h_map.c) are NOT discharged by CBMC: symbolic "
                "execution of startup + task loop did not finish in 10 min at 2x2. "
                "Jobs map.vp2.*: the same startup contract with 2 virtual processes FAILS on the unchanged tree (genuine defect, known "
                "finding C22-map-startup-multi-vp).  "
                "APPLY (apply_part.py, h_apply.c, apply_cases.h, h_apply_new.c, h_wrapper.c): the PTG compiler is rebuilt on every run "
                "from $VERIF_REPO's jdf.c / jdf2c.c / jdf_unparse.c (spec/C01 machinery) and run on the REAL "
                "parsec/data_dist/matrix/apply.jdf; the counting part of internal_init, the startup generator, the body hook of each of "
                "the three classes and the constructor parsec_apply_new are cut by name, verbatim.  With the execution spaces of "
                "APPLY_L / APPLY_U / APPLY_DIAG written by hand from the JDF text (apply_cases.h): (a) internal_init counts exactly "
                "the local tiles of the class' space (uplo in {FULL, UPPER, LOWER}, mt, nt symbolic in 0..BOX, placement symbolic), "
                "evaluating the placement once per point and never outside; (b) the startup generator creates exactly one task per "
                "local tile of the space, carrying that tile's (m, n), none other (uplo, mt, nt enumerated one cbmc process per tuple, "
                "placement symbolic); (c) the body hook invokes the user's operator exactly once with (es, descA, this tile's data, "
                "FULL for off-diagonal tiles / the requested uplo for diagonal tiles, m, n, op_args) and makes the tile the task's "
                "output; (d) lemma_cover, for ALL mt, nt >= 0 and all m, n (loop-free, complete): tile (m, n) lies in the requested "
                "region <=> exactly one of the three spaces contains it, and no tile belongs to two classes; (e) parsec_apply_new "
                "stores the four user arguments unchanged and sets the hidden globals matrix_upper / matrix_lower to the declared "
                "defaults (which (a)-(d) rely on); (f) parsec_apply_New rejects any other uplo with NULL and otherwise passes "
                "uplo, A, operation, op_args unchanged to parsec_apply_new and defines the tile datatype from A->mtype / A->mb; "
                "parsec_apply adds, starts, waits, destroys exactly once in this order.  (a)-(f) + C01's release gate + C07 / C08 / C16 "
                "compose to 'parsec_apply invokes the operator exactly once on every tile of the requested region'; the composition "
                "is an argument.  "
                "REDUCE (h_reduce.c): the generated body hook of the reduction step of reduce_col.jdf / reduce_row.jdf must hand its "
                "two inputs to the user's operator exactly once: FAILS on the pinned tree (the bodies only print; known finding "
                "C22-reduce-bodies-never-call-operator, native demonstration spec/C22/native_demo).",
    trusted_base=["stub parsec_thread_mempool_allocate (inline of mempool.h, replaced by macro): one fresh malloc'ed parsec_task_t per call",
                  "stub __parsec_schedule / __parsec_schedule_vp: record the ring's task in a ghost list and clear the ring",
                  "class descriptor of parsec_task_t pre-initialised with an empty constructor chain (PARSEC_OBJ_CONSTRUCT of tasks)",
                  "stub descriptor of the parent class parsec_taskpool_t (no constructor) under the real parsec_object.c in map.new",
                  "stubs rank_of / vpid_of / data_of of the data collection: tables; parsec_data_get_copy, "
                  "parsec_data_release_self_contained_data, parsec_taskpool_reserve_id stubbed",
                  "parsec_pins_enable_mask == 0 (no PINS module)",
                  "rely/guarantee soundness; sequentially consistent atomics",
                  "apply part: everything listed as trusted for spec/C01/h_gen.c (scheduler / mempool / mark_task_as_startup stubs, "
                  "empty constructor chain of parsec_task_t, the mechanical cut of spec/C01/spec.py _cut extended by whole named functions, "
                  "parser tables parsec.y.c / parsec.l.c taken from the build directory)",
                  "apply_cases.h: execution spaces of APPLY_L / APPLY_U / APPLY_DIAG and the requested region, written by hand from the JDF "
                  "text and the property statement",
                  "h_apply_new.c: class descriptor of the internal taskpool type with an empty constructor chain (the generated "
                  "__parsec_apply_internal_constructor is outside the contract); parsec_taskpool_reserve_id stub; _cut_new emits the "
                  "generator's '#undef <global>' lines and declarations of the class object and of apply_startup before the function",
                  "h_wrapper.c: parsec_apply_new (own contract: job apply.new), parsec_matrix_adt_define_square, "
                  "parsec_matrix_arena_datatype_destruct_free_type, parsec_context_add_taskpool / _start / _wait, parsec_taskpool_free "
                  "are recording stubs; apply.h generated on this run",
                  "h_reduce.c: printf stubbed; only the hook is cut from the generated reduce_col.c / reduce_row.c"],
    assumptions=["vpid_of answers a virtual process of the context; src->nb_local_tiles is the number of tiles rank_of places on myrank",
                 "myrank fixed to 3 per cbmc process (the code only compares it with rank_of)",
                 "composition of the per-function contracts into 'each local tile exactly once' is by hand (induction over the walk)"],
)

MANIFEST = dict(
    category="other",
    text="APPLY: for the real apply.jdf (compiler rebuilt per run) the generated internal_init / startup generator of the three classes create "
         "exactly one task per local tile of their space (matrices up to 3x3 tiles in the quick tier, 4x4 thorough; uplo enumerated, "
         "placement symbolic), the generated body hooks invoke the operator exactly once on their tile, a complete lemma shows that the "
         "three spaces partition exactly the requested region for all matrix shapes, the generated constructor and parsec_apply_New / "
         "parsec_apply pass uplo / matrix / operator / arguments through unchanged and reject any other uplo.  MAP: contracts on the real map_operator.c discharged by CBMC for every placement of matrices up to 3x3 tiles with one virtual "
         "process (1 or 2 cores): startup_fn starts at most one walker per column at its first local tile and loses no claimed "
         "column; iterate_successors yields exactly the next local tile of the column walk and never enters a column claimed by "
         "another walker (also under interference on next_n); parsec_map_operator_New hands src/dest/operator through unchanged "
         "with nb_tasks = nb_local_tiles. Shapes are bounded and the step from these contracts to 'every tile exactly once' is "
         "an induction done by hand, hence 'other'. With two virtual processes the startup contract fails (known finding).  REDUCE: the "
         "reduction-step hooks of reduce_col.jdf / reduce_row.jdf never call the operator (known finding).",
    note="NOT decided: the whole-protocol obligation itself (startup + run every task: CBMC does not finish); the reduce JDFs' tree "
         "combination and equality with the sequential fold (reduce_col/row bodies only print, no operator call; task-graph "
         "property of C02 style); reduce_wrapper.c (passes M = src->lnt, N = src->lmt to ranges declared 'row = IA .. M', 'col = JA .. N': "
         "swapped and inclusive -- observed, no obligation); for apply: matrices beyond the enumerated shapes for the startup generator "
         "(internal_init and the cover lemma are symbolic), chunked startup generation (decided for a corpus in C01), the release / "
         "scheduling / completion of the created tasks (C01 gate (c), C07, C08, C16: composition argued), data_lookup of the "
         "generated classes (which copy of the tile the hook receives), multi-rank runs; for map: the whole-protocol obligation "
         "(MAP paragraph above), concurrency of walkers beyond the rely/guarantee job on next_n, matrices larger than 3x3, more than "
         "2 cores, multi-rank runs.",
    technique="function contracts (pre/post, ghost visit counters per tile, rely/guarantee on next_n) on the real map_operator.c, "
              "apply_wrapper.c and on generated code of the real apply.jdf / reduce_*.jdf cut by name (compiler rebuilt per run), "
              "discharged by CBMC 6.11 (SAT), complete unwinding, shapes enumerated one process per tuple",
    design_ref="DESIGN.md section 5, C22 (function-level parts)")

US = {"expand_array.0": 11, "strlen.0": 14, "strcpy.0": 14}


def map_jobs(tier):
    full = tier == "thorough"
    J = []
    shapes = [(0, 2), (2, 0), (1, 1), (1, 3), (3, 1), (2, 2), (2, 3), (3, 2), (3, 3)] if full else [(0, 2), (2, 0), (2, 2), (2, 3)]
    for (mt, nt) in shapes:
        b = "src matrix of exactly %d x %d tiles (every placement and vpid table symbolic)" % (mt, nt)
        for nc in (1, 2):
            J.append(Job("map.startup.vp1c%d.%dx%d" % (nc, mt, nt), "h_map.c", entry="h_startup",
                         defines={"MT": mt, "NT": nt, "NVP": 1, "NC0": nc, "MYRANK": 3}, unwind=max(mt, nt) + 3, bounded=b,
                         functions=["parsec_map_operator_startup_fn", "add_task_to_list"], timeout=900, min_obligations=6))
        if mt > 0 and nt > 0:
            J.append(Job("map.iter.%dx%d" % (mt, nt), "h_map.c", entry="h_iter",
                         defines={"MT": mt, "NT": nt, "MYRANK": 3}, unwind=max(mt, nt) + 4, bounded=b,
                         functions=["iterate_successors"], timeout=900, min_obligations=8))
            J.append(Job("map.iter.rg.%dx%d" % (mt, nt), "h_map.c", entry="h_iter",
                         defines={"MT": mt, "NT": nt, "MYRANK": 3, "RG_ENV": 1}, unwind=max(mt, nt) + 4,
                         bounded=b + "; environment claims at most 2 columns per step, 8 steps",
                         functions=["iterate_successors"], timeout=900, min_obligations=8))
    J.append(Job("map.new", "h_map.c", entry="h_new", defines={"WITH_OBJ": 1, "MYRANK": 3}, unwind=8, unwindset=US,
                 functions=["parsec_map_operator_New", "__parsec_map_operator_constructor"], timeout=600, min_obligations=6))
    J.append(Job("map.wiring", "h_map.c", entry="h_wiring", defines={"MYRANK": 3}, unwind=4,
                 functions=["parsec_map_operator (descriptor)"], timeout=300, min_obligations=2))
    # two virtual processes: FAILS on the unchanged tree (startup_fn does not reset / advance n per vpid): own jobs
    if True:
        # measured under load: 2x1 + 1x2 together ~13 min wall in the driver (byte-typed context object, see h_map.c setup);
        # quick keeps the smallest one only
        for (mt, nt) in ([(2, 1), (1, 2), (2, 2)] if full else [(1, 2)]):
            J.append(Job("map.vp2.startup.%dx%d" % (mt, nt), "h_map.c", entry="h_startup",
                         defines={"MT": mt, "NT": nt, "NVP": 2, "NC0": 1, "NC1": 1, "MYRANK": 3}, unwind=max(mt, nt) + 3,
                         bounded="src matrix of exactly %d x %d tiles, 2 virtual processes x 1 core" % (mt, nt),
                         object_bits=11, functions=["parsec_map_operator_startup_fn"], timeout=1200, min_obligations=6))
    return J


def wrapper_jobs(tier):
    return apply_part.wrapper_jobs(tier)      # apply_wrapper.c; reduce_wrapper.c: not built (see MANIFEST note)


def jobs(tier):
    return map_jobs(tier) + wrapper_jobs(tier) + apply_part.apply_jobs(tier) + apply_part.reduce_jobs(tier)
