/* C22, apply part: the code the PTG compiler (rebuilt from $VERIF_REPO on every run) generates for the REAL
 * parsec/data_dist/matrix/apply.jdf, cut by name (spec/C01/spec.py _cut), under the contracts of spec/C01/h_gen.c
 * (gates (a) internal_init counts exactly the local points of the space, (b) the startup generator creates exactly one task
 * per local point, with that point's locals) -- with the execution spaces of apply_cases.h -- plus:
 *   h_hook   : the generated body hook of the class invokes the user's operator EXACTLY ONCE, on this task's tile
 *              (es, descA, the tile's data pointer, ul part, m, n, op_args);
 *   h_cover  : lemma over the three space predicates, for ALL mt, nt, m, n (mathematical ints in 32 bits, loop free):
 *              tile (m,n) is in the requested region  <=>  exactly one of APPLY_L / APPLY_U / APPLY_DIAG has the point.
 */
#define PROP "C22"
#define CASE_HEADER "apply_cases.h"
#include "h_gen.c"

static int g_op_calls, g_op_bad;
static void *g_op_data; static int g_op_uplo, g_op_m, g_op_n;
static int h_operation(struct parsec_execution_stream_s *e, const parsec_tiled_matrix_t *d, void *data, int ul, int m, int n, void *args)
{
    g_op_calls++;
    if (e != &es[0] || d != &dc || args != (void *)&h_op_args_obj) g_op_bad = 1;
    g_op_data = data; g_op_uplo = ul; g_op_m = m; g_op_n = n;
    return 0;
}

#ifdef HOOK_FN
struct { int32_t m, n; int32_t version; } hin;
static parsec_data_copy_t h_copy;
static char h_tile[8];
void h_hook(void)
{
    vin_load();
    __typeof__(hin) t; hin = t;
    setup();
    L((parsec_task_t *)&gen_task, IDX_A) = hin.m;
    L((parsec_task_t *)&gen_task, IDX_B) = (IDX_B == IDX_A) ? hin.m : hin.n;
    int n_eff = (IDX_B == IDX_A) ? hin.m : hin.n;
    h_copy.device_private = h_tile; h_copy.version = hin.version;
    V_ASSUME(hin.version >= 0 && hin.version < (1 << 30));
    gen_task.data._f_A.data_in = &h_copy;
    gen_task.data._f_A.data_out = NULL;

    int rc = HOOK_FN(&es[0], &gen_task);

    V_ASSERT(rc == PARSEC_HOOK_RETURN_DONE, PROP ".hook.post.answers_DONE");
    V_ASSERT(g_op_calls == 1, PROP ".hook.post.operator_invoked_exactly_once");
    V_ASSERT(!g_op_bad, PROP ".hook.post.operator_gets_stream_descriptor_and_user_arguments");
    V_ASSERT(g_op_m == hin.m && g_op_n == n_eff, PROP ".hook.post.operator_gets_this_tasks_tile_indices");
    V_ASSERT(g_op_data == (void *)h_tile, PROP ".hook.post.operator_gets_this_tiles_data");
    V_ASSERT(g_op_uplo == BODY_UPLO(vin.g[0]), PROP ".hook.post.operator_gets_the_part_of_the_tile");
    V_ASSERT(gen_task.data._f_A.data_out == &h_copy, PROP ".hook.post.tile_is_the_output_of_the_task");
    V_CANARY("hook");
}
#endif

struct { int32_t ul, mt, nt, m, n; } cin;
void h_cover(void)
{
    __typeof__(cin) t; cin = t;
    V_ASSUME(cin.ul == PARSEC_MATRIX_FULL || cin.ul == PARSEC_MATRIX_UPPER || cin.ul == PARSEC_MATRIX_LOWER);
    V_ASSUME(cin.mt >= 0 && cin.nt >= 0);
    V_ASSUME(cin.m > INT32_MIN && cin.n > INT32_MIN && cin.m < INT32_MAX && cin.n < INT32_MAX);
    int l = space_L(cin.ul, cin.mt, cin.nt, cin.m, cin.n), u = space_U(cin.ul, cin.mt, cin.nt, cin.m, cin.n),
        d = space_D(cin.ul, cin.mt, cin.nt, cin.m, cin.n);
    V_ASSERT(l + u + d <= 1, PROP ".lemma_cover.no_tile_belongs_to_two_task_classes");
    V_ASSERT(V_IFF(spec_region(cin.ul, cin.mt, cin.nt, cin.m, cin.n), l + u + d == 1),
             PROP ".lemma_cover.tile_in_requested_region_iff_exactly_one_task_instance");
    V_CANARY("cover");
}
