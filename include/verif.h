/* Contract vocabulary shared by every harness.
 *  - under CBMC: assumptions / obligations are __CPROVER_assume / __CPROVER_assert
 *  - under native replay (-DVERIF_REPLAY): an unmet assumption ends the run with
 *    code 3, a failed obligation prints its name and ends with code 1.
 * All symbolic inputs of a harness live in one global `struct vin vin`, havocked
 * by vin_load() (verif_vin.h), so that a counterexample can be replayed. */
#ifndef VERIF_H
#define VERIF_H
#ifdef VERIF_REPLAY
#include <stdio.h>
#include <stdlib.h>
#define V_ASSUME(c) do { if(!(c)) { printf("REPLAY: assumption not met: %s\n", #c); exit(3); } } while(0)
#define V_ASSERT(c, msg) do { if(!(c)) { printf("REPLAY: OBLIGATION FAILED: %s\n", msg); fflush(stdout); exit(1); } } while(0)
#define V_CANARY(tag) do { } while(0)
#define __CPROVER_requires(...)
#define __CPROVER_ensures(...)
#define __CPROVER_assigns(...)
#define __CPROVER_assume(c) V_ASSUME(c)
#define __CPROVER_assert(c, m) V_ASSERT(c, m)
#define V_NONDET_INT() 0
#else
#define V_ASSUME(c) __CPROVER_assume(c)
#define V_ASSERT(c, msg) __CPROVER_assert(c, msg)
#define V_CANARY(tag) __CPROVER_assert(0, "CANARY " tag)
int nondet_int(void);
#define V_NONDET_INT() nondet_int()
#endif
#define V_IMPLIES(a, b) (!(a) || (b))
#define V_IFF(a, b) (!(a) == !(b))
#endif
