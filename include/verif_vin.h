/* include after `struct vin { ... } vin;` */
#ifdef VERIF_REPLAY
#include <string.h>
#endif
static void vin_load(void)
{
#ifdef VERIF_REPLAY
    memset(&vin, 0, sizeof(vin));
#include "vin_values.h"
#else
    struct vin fresh;   /* uninitialised local = nondeterministic value */
    vin = fresh;
#endif
}
