#include <stdio.h>
extern void VERIF_ENTRY(void);
int main(void) { VERIF_ENTRY(); printf("REPLAY: completed, no obligation failed\n"); return 0; }
