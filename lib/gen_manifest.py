#!/usr/bin/env python3
"""Regenerates /verif/MANIFEST.json from spec/*/spec.py (MANIFEST dicts) and spec/not_applicable.json."""
import os, sys, json, importlib.util
HERE = os.path.dirname(os.path.dirname(os.path.abspath(__file__)))
sys.path.insert(0, os.path.join(HERE, "lib"))
checks = []
READY = set(open(os.path.join(HERE, "spec", "claimed.txt")).read().split())   # reviewed + committed specs only
claimed = set()
for d in sorted(os.listdir(os.path.join(HERE, "spec"))):
    f = os.path.join(HERE, "spec", d, "spec.py")
    if not os.path.exists(f):
        continue
    sp = importlib.util.spec_from_file_location("spec_" + d, f)
    m = importlib.util.module_from_spec(sp); sp.loader.exec_module(m)
    M = getattr(m, "MANIFEST", None)
    if not M or M.get("disabled") or d not in READY:
        continue
    claimed.add(d)
    checks.append({
        "property_id": d,
        "quick_cmd": "./vcheck %s --tier quick" % d,
        "thorough_cmd": "./vcheck %s --tier thorough" % d,
        "evidence_file": "/verif/evidence/%s.json" % d,
        "replay_cmd_template": "./vcheck %s --replay {path}" % d,
        "engine": "vcheck",
        "level_claimed": {"category": M["category"], "text": M["text"], "design_ref": M.get("design_ref", "DESIGN.md section 5, " + d)},
        "level_note": M["note"],
        "technique": M.get("technique", "function contracts on the real C code discharged by CBMC 6.11"),
    })
na = json.load(open(os.path.join(HERE, "spec", "not_applicable.json")))
props = [json.loads(l)["id"] for l in open(os.path.join(HERE, "properties.jsonl"))]
na_list = []
for p in props:
    if p in claimed:
        continue
    na_list.append({"property_id": p, "reason": na.get(p, "check not built yet in this session (planned in DESIGN.md section 5); not claimed")})
man = {
    "version": 1,
    "setup_cmd": "./vcheck --setup",
    "hooks": {
        "guard": "PARSEC_VERIF",
        "enable": "-DPARSEC_VERIF is passed on harness compile lines only; no hook was added to /repo: contracts attach to prototypes placed before the #include of the real .c file, loop contracts through a scratch overlay",
        "baseline_off_cmd": "ctest --test-dir /repo/_build -j8 --timeout 900",
        "source_commits": json.load(open(os.path.join(HERE, "spec", "source_commits.json"))) if os.path.exists(os.path.join(HERE, "spec", "source_commits.json")) else [],
        "add_only": True,
    },
    "engines": [{"name": "vcheck", "path": "/verif/vcheck", "serves_properties": sorted(claimed),
                 "kind_free_text": "contract-based deductive verification: goto-cc on the real translation units, goto-instrument --dfcc contract enforcement / replacement, cbmc (SAT) discharging every obligation; native replay of counterexamples"}],
    "checks": checks,
    "not_applicable": na_list,
    "notes": "All checks rebuild their goto binaries from /repo's working tree on every run. Exit 2 = undecided (never a violation). Known findings are listed in /verif/known_findings.json.",
}
json.dump(man, open(os.path.join(HERE, "MANIFEST.json"), "w"), indent=1)
print("MANIFEST.json: %d checks, %d not_applicable" % (len(checks), len(na_list)))
