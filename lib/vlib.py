# Core of the contract-checking driver: build (goto-cc), instrument
# (goto-instrument --dfcc), decide (cbmc), classify obligations, write evidence,
# produce replay files and replay them natively against the real code.
#
# Exit codes of a check: 0 every obligation discharged (KNOWN-FINDING lines for
# listed findings), 1 an unlisted obligation failed (VIOLATION line), 2 undecided
# (timeout, tool failure, vacuity canary passed, overlay anchor missing).
import json, os, re, shutil, subprocess, sys, tempfile, threading, time, hashlib

VERIF = os.path.dirname(os.path.dirname(os.path.abspath(__file__)))
REPO = os.environ.get("VERIF_REPO", "/repo")
NCPU = int(os.environ.get("VERIF_JOBS", str(os.cpu_count() or 8)))
MEM_BUDGET_GB = int(os.environ.get("VERIF_MEM_GB", "48"))
GUARD = "PARSEC_VERIF"


def build_dir():
    for d in (os.path.join(REPO, "_build"), "/repo/_build"):
        if os.path.exists(os.path.join(d, "parsec/include/parsec/parsec_config.h")):
            return d
    return None


def cflags(scratch_inc=None):
    """Compile flags of the real build (taken from `ninja -t commands` of
    /repo/_build: see DESIGN 2.1), pointed at REPO's working tree."""
    b = build_dir()
    if b is None:
        raise Undecided("no configured build directory (parsec_config.h) found under %s/_build" % REPO)
    fl = ["-DBUILDING_PARSEC", "-DYYERROR_VERBOSE", "-D_GNU_SOURCE", "-Dparsec_EXPORTS",
          "-DNDEBUG", "-std=gnu11", "-m64", "-mcx16", "-D" + GUARD]
    fl += os.environ.get("VERIF_EXTRA_DEFINES", "").split()
    inc = []
    if scratch_inc:
        inc.append(scratch_inc)
    inc += [VERIF + "/include",
            b + "/parsec/include", b, REPO + "/parsec/include", REPO,
            b + "/parsec/data_dist/matrix", b + "/parsec/data_dist/matrix/redistribute",
            "/usr/lib/x86_64-linux-gnu/openmpi/include",
            "/usr/lib/x86_64-linux-gnu/openmpi/include/openmpi"]
    return fl + ["-I" + i for i in inc]


class Undecided(Exception):
    pass


class Job:
    """One cbmc process = one group of obligations.
    harness  : C file (relative to the spec directory)
    entry    : harness function (goto-cc --function)
    defines  : dict of -D
    enforce  : function whose contract is enforced with goto-instrument --dfcc
    replace  : callees replaced by their contracts
    loop_contracts : pass --apply-loop-contracts
    overlay  : list of (repo-relative file, [rules]) -> scratch copy with loop contracts inserted
    unwind / unwindset : complete unwinding (unwinding assertions always on)
    bounded  : None, or a string describing the bound when the unwinding is a stand-in
    checks   : extra cbmc flags (e.g. --pointer-check)
    route    : 'dfcc' | 'harness' (informational, derived from enforce)
    """
    def __init__(self, name, harness, entry="harness", defines=None, enforce=None, replace=None,
                 loop_contracts=False, overlay=None, unwind=None, unwindset=None, bounded=None,
                 checks=("--pointer-check", "--bounds-check"), solver=None, paths=None,
                 timeout=600, mem_gb=6, object_bits=None, functions=None, min_obligations=1,
                 extra_cc=None, replay=True, canaries=1, slice_formula=False, extra_cbmc=None,
                 nondet_static=False, depth=None, malloc_may_fail=False, unwinding_assertions=True):
        self.name = name; self.harness = harness; self.entry = entry
        self.defines = dict(defines or {}); self.enforce = enforce; self.replace = list(replace or [])
        self.loop_contracts = loop_contracts; self.overlay = overlay or []
        self.unwind = unwind; self.unwindset = unwindset or {}; self.bounded = bounded
        self.checks = list(checks); self.solver = solver; self.paths = paths
        self.timeout = timeout; self.mem_gb = mem_gb; self.object_bits = object_bits
        self.functions = functions or ([enforce] if enforce else [])
        self.min_obligations = min_obligations; self.extra_cc = list(extra_cc or [])
        self.replay = replay; self.canaries = canaries; self.slice_formula = slice_formula
        self.extra_cbmc = list(extra_cbmc or []); self.nondet_static = nondet_static
        self.depth = depth; self.malloc_may_fail = malloc_may_fail
        # False: paths exceeding the unwinding bound are cut (used only for "must block" obligations under a frozen
        # environment, where the statement after the call has to be unreachable)
        self.unwinding_assertions = unwinding_assertions
        self.route = ("dfcc" if (enforce or self.replace) else "harness") + ("+loop-contracts" if loop_contracts else "")


def run(cmd, timeout, mem_gb, cwd=None, stdout_path=None):
    """Run under timeout and an address-space cap. Returns (rc, stdout, stderr, seconds)."""
    t0 = time.time()
    pre = "ulimit -v %d; exec " % (mem_gb * 1024 * 1024)
    sh = pre + " ".join(shq(c) for c in cmd)
    out_f = open(stdout_path, "w") if stdout_path else subprocess.PIPE
    try:
        p = subprocess.Popen(["/bin/bash", "-c", sh], cwd=cwd, stdout=out_f, stderr=subprocess.PIPE,
                             text=True, start_new_session=True)
        try:
            out, err = p.communicate(timeout=timeout)
            rc = p.returncode
        except subprocess.TimeoutExpired:
            try:
                os.killpg(p.pid, 9)
            except Exception:
                pass
            out, err = p.communicate()
            rc = -999
    finally:
        if stdout_path:
            out_f.close()
    if stdout_path:
        out = None
    return rc, out, err, time.time() - t0


def shq(s):
    if re.match(r"^[A-Za-z0-9_@%+=:,./-]+$", s):
        return s
    return "'" + s.replace("'", "'\\''") + "'"


# --------------------------------------------------------------------------
# overlay: insert loop contracts / ghost statements into a scratch copy of a
# real source file, keyed by function name + loop ordinal.  Aborts (Undecided)
# when an anchor does not match exactly once.
# --------------------------------------------------------------------------
def strip_comments_keep_layout(src):
    out = []
    i = 0; n = len(src)
    while i < n:
        c = src[i]
        if src.startswith("/*", i):
            j = src.find("*/", i + 2); j = n if j < 0 else j + 2
            out.append(re.sub(r"[^\n]", " ", src[i:j])); i = j
        elif src.startswith("//", i):
            j = src.find("\n", i); j = n if j < 0 else j
            out.append(" " * (j - i)); i = j
        elif c == '"' or c == "'":
            q = c; j = i + 1
            while j < n and src[j] != q:
                j += 2 if src[j] == "\\" else 1
            j = min(j + 1, n)
            out.append(q + "_" * (j - i - 2) + q if j - i >= 2 else src[i:j]); i = j
        else:
            out.append(c); i += 1
    return "".join(out)


def find_function_body(clean, fname):
    """Returns (start, end) offsets of the '{'...'}' body of the definition of fname."""
    hits = []
    for m in re.finditer(r"\b" + re.escape(fname) + r"\s*\(", clean):
        # find matching ')'
        i = m.end() - 1; depth = 0
        while i < len(clean):
            if clean[i] == "(":
                depth += 1
            elif clean[i] == ")":
                depth -= 1
                if depth == 0:
                    break
            i += 1
        j = i + 1
        while j < len(clean) and clean[j] in " \t\n\r":
            j += 1
        if j < len(clean) and clean[j] == "{":
            # must be at file scope: brace depth before m.start() is 0
            if clean[:m.start()].count("{") == clean[:m.start()].count("}"):
                k = j; d = 0
                while k < len(clean):
                    if clean[k] == "{":
                        d += 1
                    elif clean[k] == "}":
                        d -= 1
                        if d == 0:
                            break
                    k += 1
                hits.append((j, k))
    if len(hits) != 1:
        raise Undecided("overlay: function %s found %d times" % (fname, len(hits)))
    return hits[0]


def find_loops(clean, start, end):
    """Offsets just after the closing ')' of each for/while head (not do-while tails) in [start,end)."""
    res = []
    for m in re.finditer(r"\b(for|while)\s*\(", clean[start:end]):
        i = start + m.end() - 1; depth = 0
        while i < end:
            if clean[i] == "(":
                depth += 1
            elif clean[i] == ")":
                depth -= 1
                if depth == 0:
                    break
            i += 1
        j = i + 1
        while j < end and clean[j] in " \t\n\r":
            j += 1
        if m.group(1) == "while" and j < end and clean[j] == ";":
            # do { } while(...);  or an empty-body spin: contracts go before ';'
            res.append(("while;", i + 1))
        else:
            res.append((m.group(1), i + 1))
    return res


def apply_overlay(relpath, rules, scratch):
    """rules: list of dicts {function, loops (expected count), loop (ordinal, 0-based), text}
       or {function, after_loop:k, text} (ghost statement after the loop body) ."""
    srcpath = os.path.join(REPO, relpath)
    src = open(srcpath).read()
    clean = strip_comments_keep_layout(src)
    inserts = []
    for r in rules:
        s, e = find_function_body(clean, r["function"])
        loops = find_loops(clean, s, e)
        if "loops" in r and len(loops) != r["loops"]:
            raise Undecided("overlay: %s has %d loops, expected %d" % (r["function"], len(loops), r["loops"]))
        if "loop" in r:
            if r["loop"] >= len(loops):
                raise Undecided("overlay: loop #%d missing in %s" % (r["loop"], r["function"]))
            inserts.append((loops[r["loop"]][1], "\n" + r["text"] + "\n"))
        elif "at_entry" in r:
            inserts.append((s + 1, "\n" + r["text"] + "\n"))
    out = src
    for off, text in sorted(inserts, key=lambda x: -x[0]):
        out = out[:off] + text + out[off:]
    dst = os.path.join(scratch, relpath)
    os.makedirs(os.path.dirname(dst), exist_ok=True)
    open(dst, "w").write(out)
    return dst


# --------------------------------------------------------------------------
# running one job
# --------------------------------------------------------------------------
class JobResult:
    def __init__(self, job):
        self.job = job
        self.status = "ok"          # ok | undecided
        self.reason = ""
        self.props = []             # dicts: id, desc, status, loc
        self.seconds = 0.0
        self.cmds = []
        self.log = ""
        self.gb = None
        self.scratch = None
        self.nobody = []


def job_build(job, specdir, scratch):
    """goto-cc (+ goto-instrument). Returns path to final goto binary."""
    res_cmds = []
    inc = None
    if job.overlay:
        inc = os.path.join(scratch, "ovl")
        for rel, rules in job.overlay:
            apply_overlay(rel, rules, inc)
    fl = cflags(inc)
    for k, v in job.defines.items():
        fl.append("-D%s=%s" % (k, v) if v is not None else "-D%s" % k)
    src = os.path.join(specdir, job.harness)
    gb = os.path.join(scratch, "a.gb")
    cmd = ["goto-cc"] + fl + job.extra_cc + ["-I" + specdir, src, "--function", job.entry, "-o", gb]
    rc, out, err, s = run(cmd, 300, 8)
    res_cmds.append(" ".join(cmd))
    if rc != 0:
        raise Undecided("goto-cc failed (rc=%s): %s" % (rc, (err or "")[-2000:]))
    cur = gb
    if job.enforce or job.replace or job.loop_contracts:
        # work-around for a goto-instrument 6.11 crash while linking the CPROVER library into TUs that take the
        # address of _Exit (parsec.c): link the library and drop unreachable functions first.
        for k, opt in enumerate(("--add-library", "--drop-unused-functions")):
            nxt = os.path.join(scratch, "p%d.gb" % k)
            cmd = ["goto-instrument", opt, cur, nxt]
            rc, out, err, s = run(cmd, 600, 12)
            res_cmds.append(" ".join(cmd))
            if rc != 0:
                raise Undecided("goto-instrument %s failed (rc=%s): %s" % (opt, rc, ((out or "") + (err or ""))[-2000:]))
            cur = nxt
        nxt = os.path.join(scratch, "b.gb")
        cmd = ["goto-instrument", "--dfcc", job.entry]
        if job.enforce:
            cmd += ["--enforce-contract", job.enforce]
        for r in job.replace:
            cmd += ["--replace-call-with-contract", r]
        if job.loop_contracts:
            cmd += ["--apply-loop-contracts"]
        cmd += [cur, nxt]
        rc, out, err, s = run(cmd, 600, 12)
        res_cmds.append(" ".join(cmd))
        if rc != 0:
            raise Undecided("goto-instrument failed (rc=%s): %s" % (rc, ((out or "") + (err or ""))[-3000:]))
        cur = nxt
    return cur, res_cmds


def cbmc_cmd(job, gb, trace=False):
    cmd = ["cbmc", gb, "--no-standard-checks", "--json-ui", "--drop-unused-functions"]
    if job.unwinding_assertions:
        cmd += ["--unwinding-assertions"]
    if not job.malloc_may_fail:
        cmd += ["--no-malloc-may-fail"]
    cmd += job.checks
    if job.unwind is not None:
        cmd += ["--unwind", str(job.unwind)]
    if job.unwindset:
        cmd += ["--unwindset", ",".join("%s:%d" % kv for kv in job.unwindset.items())]
    if job.object_bits:
        cmd += ["--object-bits", str(job.object_bits)]
    if job.paths:
        cmd += ["--paths", job.paths]
    if job.depth:
        cmd += ["--depth", str(job.depth)]
    if job.solver == "kissat":
        cmd += ["--external-sat-solver", "kissat"]
    elif job.solver in ("z3", "cvc5"):
        cmd += ["--" + job.solver]
    if job.slice_formula:
        cmd += ["--slice-formula"]
    if job.nondet_static:
        cmd += ["--nondet-static"]
    cmd += job.extra_cbmc
    if trace:
        cmd += ["--trace"]
    return cmd


def parse_cbmc_json(path):
    try:
        data = json.load(open(path))
    except Exception as e:
        return None, "unparsable cbmc output: %s" % e, ""
    props = None; msgs = []
    status = None
    for o in data:
        if "result" in o:
            props = o["result"]
        elif "messageText" in o:
            msgs.append(o.get("messageType", "") + ": " + o["messageText"])
        elif "cProverStatus" in o:
            status = o["cProverStatus"]
    return props, status, "\n".join(msgs)


def run_job(job, specdir, keep_dir):
    r = JobResult(job)
    t0 = time.time()
    base = os.path.join(os.environ.get("VERIF_TMP", "/tmp"), ".vscratch", str(os.getpid()))
    os.makedirs(base, exist_ok=True)
    scratch = tempfile.mkdtemp(prefix="job-", dir=base)
    r.scratch = scratch
    try:
        gb, cmds = job_build(job, specdir, scratch)
        r.cmds += cmds
        r.gb = gb
        outp = os.path.join(scratch, "out.json")
        cmd = cbmc_cmd(job, gb)
        r.cmds.append(" ".join(cmd))
        rc, _, err, s = run(cmd, job.timeout, job.mem_gb, stdout_path=outp)
        if rc == -999:
            raise Undecided("cbmc timeout after %ds" % job.timeout)
        props, status, msgs = parse_cbmc_json(outp)
        r.log = msgs
        r.nobody = sorted(set(re.findall(r"no body for function '?([A-Za-z0-9_]+)'?", msgs)))
        if props is None:
            raise Undecided("cbmc gave no result (rc=%s): %s %s" % (rc, (msgs or "")[-1500:], (err or "")[-500:]))
        if "ignoring forall" in msgs or "ignoring exists" in msgs:
            raise Undecided("quantifier dropped by back end")
        for p in props:
            loc = p.get("sourceLocation", {})
            r.props.append({"id": p["property"], "desc": p.get("description", ""), "status": p["status"],
                            "file": loc.get("file", ""), "line": loc.get("line", ""),
                            "function": loc.get("function", "")})
        lib = [p for p in r.props if p["status"] == "FAILURE" and p["function"].startswith("__CPROVER_contracts_")]
        if lib:
            # preconditions of goto-instrument's contract library on the assigns-clause targets themselves: the
            # loop/function contract is malformed or its frame could not be inferred -- a specification problem
            raise Undecided("contract library precondition failed (%s in %s): check the assigns clause" % (lib[0]["desc"][:60], lib[0]["function"]))
        nb = [p for p in r.props if p["desc"].startswith("no body for callee") and p["status"] == "FAILURE"]
        if nb:
            raise Undecided("harness incomplete: %s (stub it explicitly)" % nb[0]["desc"])
        if any(p["status"] == "FAILURE" and not is_canary(p) for p in r.props):
            # CBMC reports UNKNOWN for checks on a path on which an earlier check already failed: they are not
            # obligations of this run (the failure itself is reported)
            r.props = [p for p in r.props if p["status"] != "UNKNOWN"]
        bad = [p for p in r.props if p["status"] not in ("SUCCESS", "FAILURE")]
        if bad:
            raise Undecided("cbmc reported status %s for %s" % (bad[0]["status"], bad[0]["id"]))
    except Undecided as e:
        r.status = "undecided"; r.reason = str(e)
    r.seconds = time.time() - t0
    return r


def is_canary(p):
    return p["desc"].startswith("CANARY")


def is_unwinding(p):
    return "unwinding assertion" in p["desc"] or ".unwind." in p["id"]


def get_trace(job, r, failed_ids):
    """Re-run cbmc with --trace, return {prop_id: {vin-path: value}} and raw text excerpt."""
    outp = os.path.join(r.scratch, "trace.json")
    cmd = cbmc_cmd(job, r.gb, trace=True)
    for pid in failed_ids[:4]:
        cmd += ["--property", pid]
    rc, _, err, s = run(cmd, job.timeout * 2, job.mem_gb + 4, stdout_path=outp)
    res = {}
    try:
        data = json.load(open(outp))
    except Exception:
        return res
    for o in data:
        if "result" not in o:
            continue
        for p in o["result"]:
            if p["status"] != "FAILURE" or "trace" not in p:
                continue
            vin = {}
            steps = []
            for s_ in p["trace"]:
                if s_.get("stepType") == "assignment":
                    lhs = s_.get("lhs", "")
                    v = s_.get("value", {})
                    if (lhs.startswith("vin.") or lhs.startswith("vin[")) and "$" not in lhs and "data" in v and v.get("name") in (
                            "integer", "boolean", "float", "pointer", "unknown"):
                        key = re.sub(r"\[(\d+)[a-z]*\]", r"[\1]", lhs)
                        val = v["data"]
                        if v.get("name") == "integer" and re.fullmatch(r"[01]+", v.get("binary", "")):
                            n = int(v["binary"], 2); w = len(v["binary"])
                            if not str(v.get("type", "")).startswith("unsigned") and v["binary"][0] == "1" and "char" not in str(v.get("type", "")):
                                n -= 1 << w
                            elif "char" in str(v.get("type", "")) and not str(v.get("type", "")).startswith("unsigned") and v["binary"][0] == "1":
                                n -= 1 << w
                            val = str(n) + ("u" if n > 2147483647 and w <= 32 else "") + ("ull" if w > 32 and n > 9223372036854775807 else "")
                        vin[key] = val
                elif s_.get("stepType") == "failure":
                    steps.append(s_.get("reason", ""))
            res[p["property"]] = vin
    return res


# --------------------------------------------------------------------------
# native replay of a counterexample
# --------------------------------------------------------------------------
def c_literal(v):
    v = str(v)
    if re.match(r"^-?\d+(u|l|ul|ll|ull)?$", v):
        if v.startswith("-2147483648"):
            return "(-2147483647-1)"
        if v == "-9223372036854775808":
            return "(-9223372036854775807LL-1)"
        return v.upper() if not v[-1].isdigit() else v
    if v in ("TRUE", "true"):
        return "1"
    if v in ("FALSE", "false"):
        return "0"
    if v == "NULL":
        return "0"
    return None


def native_replay(job, specdir, vin, workdir):
    """Compile the same harness natively (-DVERIF_REPLAY) against REPO's sources and run it with the
    counterexample's inputs. Returns (fired: bool|None, text)."""
    if not job.replay:
        return None, "native replay not available for this harness"
    os.makedirs(workdir, exist_ok=True)
    lines = []
    for k, v in sorted(vin.items()):
        lit = c_literal(v)
        if lit is None:
            continue
        lines.append("%s = %s;" % (k, lit))
    open(os.path.join(workdir, "vin_values.h"), "w").write("\n".join(lines) + "\n")
    b = build_dir()
    fl = cflags()
    for k, v in job.defines.items():
        fl.append("-D%s=%s" % (k, v) if v is not None else "-D%s" % k)
    exe = os.path.join(workdir, "replay.exe")
    cmd = ["gcc", "-O0", "-g", "-w", "-DVERIF_REPLAY", "-DVERIF_ENTRY=" + job.entry, "-I" + workdir] + fl + \
          ["-I" + specdir, os.path.join(specdir, job.harness), os.path.join(VERIF, "include/verif_replay_main.c"),
           "-o", exe, "-L" + b + "/parsec", "-lparsec", "-Wl,-rpath," + b + "/parsec",
           "/usr/lib/x86_64-linux-gnu/openmpi/lib/libmpi.so", "/usr/lib/x86_64-linux-gnu/libhwloc.so",
           "-Wl,-rpath,/usr/lib/x86_64-linux-gnu/openmpi/lib", "-lpthread", "-lm", "-ldl"]
    rc, out, err, s = run(cmd, 300, 16)
    if rc != 0:
        return None, "native build of the harness failed: " + (err or "")[-1500:]
    rc, out, err, s = run([exe], 60, 16)
    text = (out or "") + (err or "")
    if rc == 1 and "OBLIGATION FAILED" in text:
        return True, text[-2000:]
    if rc < 0 or rc >= 128:
        return True, "native run crashed (rc=%d): %s" % (rc, text[-1500:])
    return False, text[-1500:]


# --------------------------------------------------------------------------
# scheduler
# --------------------------------------------------------------------------
def run_jobs(jobs, specdir):
    results = [None] * len(jobs)
    lock = threading.Condition()
    state = {"cpu": NCPU, "mem": MEM_BUDGET_GB}
    order = sorted(range(len(jobs)), key=lambda i: -jobs[i].timeout)

    def worker(i):
        j = jobs[i]
        try:
            results[i] = run_job(j, specdir, None)
        except Exception as e:  # never let a tool error look like a pass
            r = JobResult(j); r.status = "undecided"; r.reason = "driver error: %r" % e
            results[i] = r
        with lock:
            state["cpu"] += 1; state["mem"] += j.mem_gb
            lock.notify_all()

    threads = []
    for i in order:
        j = jobs[i]
        with lock:
            while state["cpu"] < 1 or (state["mem"] < j.mem_gb and state["mem"] < MEM_BUDGET_GB):
                lock.wait()
            state["cpu"] -= 1; state["mem"] -= j.mem_gb
        t = threading.Thread(target=worker, args=(i,)); t.start(); threads.append(t)
    for t in threads:
        t.join()
    return results


# --------------------------------------------------------------------------
# known findings
# --------------------------------------------------------------------------
def load_known():
    p = os.path.join(VERIF, "known_findings.json")
    if not os.path.exists(p):
        return []
    return json.load(open(p))


def match_known(known, prop_id, job, p):
    """A failed obligation is a known finding only if property, job and obligation text match an entry with
    status 'known'.  Entries with status 'fixed' suppress nothing."""
    for k in known:
        if k.get("status") != "known" or k.get("property") != prop_id:
            continue
        if k.get("job") and not re.fullmatch(k["job"], job.name):
            continue
        ob = k.get("obligation")
        if ob:
            obs = ob if isinstance(ob, list) else [ob]
            if not any(o in p["desc"] for o in obs):
                continue
        return k
    return None


# --------------------------------------------------------------------------
# the check
# --------------------------------------------------------------------------
def check(prop_id, spec, tier, specdir):
    t0 = time.time()
    seed = int(os.environ.get("VERIF_SEED", "0") or 0)
    jobs = spec.jobs(tier)
    if os.environ.get("VERIF_ONLY"):     # development aid: run only the jobs whose name matches (evidence then goes to replay/)
        jobs = [j for j in jobs if re.search(os.environ["VERIF_ONLY"], j.name)]
    meta = spec.META
    results = run_jobs(jobs, specdir)
    known = load_known()
    obligations = 0; discharged = 0
    undecided = []; violations = []; known_hits = []
    samples = []; per_job = []
    solver_s = 0.0
    b_obl = 0; b_dis = 0
    nobody = set()
    functions = set(meta.get("functions", []))
    bounded_notes = []
    for r in results:
        j = r.job
        functions.update(j.functions)
        if j.bounded:
            bounded_notes.append("%s: %s" % (j.name, j.bounded))
        solver_s += r.seconds
        nobody.update(r.nobody)
        if r.status == "undecided":
            undecided.append("%s: %s" % (j.name, r.reason))
            per_job.append({"job": j.name, "route": j.route, "status": "undecided", "reason": r.reason[:300],
                            "seconds": round(r.seconds, 1)})
            continue
        can = [p for p in r.props if is_canary(p)]
        real = [p for p in r.props if not is_canary(p)]
        if len(can) < j.canaries:
            undecided.append("%s: canary missing (%d < %d)" % (j.name, len(can), j.canaries))
        for c in can:
            if c["status"] == "SUCCESS":
                undecided.append("%s: vacuity canary '%s' is unreachable (contradictory precondition)" % (j.name, c["desc"]))
        if len(real) < j.min_obligations:
            undecided.append("%s: only %d obligations generated, expected >= %d" % (j.name, len(real), j.min_obligations))
        if j.loop_contracts and not any("loop invariant" in p["desc"].lower() or "loop_invariant" in p["id"] for p in real):
            undecided.append("%s: loop contract was not applied (no loop-invariant obligation)" % j.name)
        failed = [p for p in real if p["status"] == "FAILURE"]
        if j.bounded and meta.get("level") == "proof":
            # bounded stand-ins are never counted among the proved obligations
            b_obl += len(real); b_dis += len(real) - len(failed)
        else:
            obligations += len(real); discharged += len(real) - len(failed)
        per_job.append({"job": j.name, "route": j.route, "backend": j.solver or "cbmc built-in SAT (MiniSat)",
                        "obligations": len(real), "discharged": len(real) - len(failed),
                        "seconds": round(r.seconds, 1), "bounded": j.bounded or None,
                        "functions": j.functions})
        named = [p for p in real if p["status"] == "SUCCESS" and re.match(r"^C\d\d", p["desc"])]
        for p in (named or real)[:2]:
            if len(samples) < 12:
                samples.append({"job": j.name, "obligation": p["desc"][:160], "cbmc_id": p["id"], "status": p["status"]})
        if failed:
            unk = []
            for p in failed:
                k = match_known(known, prop_id, j, p)
                if k:
                    known_hits.append((k, j, p))
                    # a listed finding is reported on its own line and in known_failed, not among the obligations
                    if j.bounded and meta.get("level") == "proof":
                        b_obl -= 1
                    else:
                        obligations -= 1
                else:
                    unk.append(p)
            if unk:
                traces = get_trace(j, r, [p["id"] for p in unk])
                for p in unk:
                    violations.append((j, r, p, traces.get(p["id"])))
    # ----- report
    rc = 0
    printed_known = set()
    for k, j, p in known_hits:
        key = k.get("id") or k.get("what")
        if key in printed_known:
            continue
        printed_known.add(key)
        print("KNOWN-FINDING: property=%s %s [obligation %s in job %s]" % (prop_id, k.get("what", ""), p["desc"][:100], j.name))
    replay_dir = os.path.join(VERIF, "replay")
    if violations:
        os.makedirs(replay_dir, exist_ok=True)
        seen = set()
        for j, r, p, vin in violations:
            tag = re.sub(r"[^A-Za-z0-9_.-]", "_", "%s-%s-%s" % (prop_id, j.name, p["id"]))[:150]
            if tag in seen:
                continue
            seen.add(tag)
            path = os.path.join(replay_dir, tag + ".json")
            fired, text = (None, "no counterexample inputs extracted")
            if vin:
                fired, text = native_replay(j, specdir, vin, os.path.join(r.scratch, "replay-" + p["id"]))
            doc = {"property": prop_id, "job": j.name, "obligation": p["desc"], "cbmc_property": p["id"],
                   "location": "%s:%s (%s)" % (p["file"], p["line"], p["function"]),
                   "harness": os.path.join(specdir, j.harness), "entry": j.entry, "defines": j.defines,
                   "vin": vin or {}, "commands": r.cmds,
                   "native_replay": {"fired": fired, "output": text},
                   "verifier_output": r.log[-3000:]}
            json.dump(doc, open(path, "w"), indent=1)
            suffix = "" if fired else " no-failing-input-found"
            print("VIOLATION property=%s replay=%s obligation=\"%s\"%s" % (prop_id, path, p["desc"][:120], suffix))
        rc = 1
    if undecided:
        for u in undecided:
            print("UNDECIDED: property=%s %s" % (prop_id, u))
        if rc == 0:
            rc = 2
    # ----- evidence
    level = meta.get("level", "other")
    all_complete = not bounded_notes
    cov = {
        "obligations": obligations, "discharged": discharged,
        "checker_cmd": "goto-cc <flags of the real build> <harness including the real source> --function <entry>; "
                       "goto-instrument --dfcc <entry> --enforce-contract <f> [--replace-call-with-contract g] (route dfcc); "
                       "cbmc --no-standard-checks --unwinding-assertions --pointer-check --bounds-check [...] (see per_job / commands)",
        "trusted_base": meta.get("trusted_base", []) + COMMON_TRUSTED,
        "explanation": meta.get("explanation", ""),
        "functions_under_contract": sorted(functions),
        "per_job": per_job,
        "samples": samples,
        "bounded": bounded_notes,
        "bodyless_callees_treated_as_nondet_return_no_side_effect": sorted(nobody),
        "bounded_obligations": b_obl, "bounded_discharged": b_dis,
        "exhaustive": False,
        "solver_seconds_sum": round(solver_s, 1),
        "known_findings_reported": sorted(set(k.get("what", "") for k, _, _ in known_hits)),
        "known_failed_obligations": [{"job": j.name, "obligation": p["desc"][:160]} for _, j, p in known_hits],
        "undecided": undecided,
        "jobs": len(jobs),
        "repo": REPO,
    }
    ev = {"property_id": prop_id, "tier": tier, "seed": seed, "level": level, "coverage": cov,
          "assumptions": meta.get("assumptions", []) + COMMON_ASSUMPTIONS,
          "wall_s": round(time.time() - t0, 1), "violations": len(violations)}
    # evidence/ describes /repo itself; runs against another checkout (selftests, seeded changes) write elsewhere
    evdir = os.path.join(VERIF, "evidence") if (os.path.realpath(REPO) == "/repo" and not os.environ.get("VERIF_ONLY")) else os.path.join(VERIF, "replay", "evidence-other-checkout")
    os.makedirs(evdir, exist_ok=True)
    json.dump(ev, open(os.path.join(evdir, prop_id + ".json"), "w"), indent=1)
    # clean scratch
    for r in results:
        if r and r.scratch and not os.environ.get("VERIF_KEEP"):
            shutil.rmtree(r.scratch, ignore_errors=True)
    if not os.environ.get("VERIF_KEEP"):
        shutil.rmtree(os.path.join(os.environ.get("VERIF_TMP", "/tmp"), ".vscratch", str(os.getpid())), ignore_errors=True)
    print("%s tier=%s jobs=%d obligations=%d discharged=%d known=%d violations=%d undecided=%d wall=%.0fs" % (
        prop_id, tier, len(jobs), obligations, discharged, len(known_hits), len(violations), len(undecided),
        time.time() - t0))
    return rc


COMMON_TRUSTED = [
    "cbmc / goto-cc / goto-instrument 6.11.0 and the SAT back end",
    "CBMC's semantics for GCC __sync_*/__atomic_* builtins (sequentially consistent read-modify-write)",
    "configuration of /repo/_build (x86-64, NDEBUG, MPI on, 128-bit CAS, TICKET rwlock)",
]
COMMON_ASSUMPTIONS = [
    "machine integers are bit-vectors (overflow is in the model, not assumed away)",
    "asserts of the real code are compiled out (NDEBUG) as in the shipped build; where one documents a precondition it is restated in the contract's requires",
]
