#!/usr/bin/env python3
"""./lib/selftest.py Cxx [patch...]   apply each spec/Cxx/selftest/*.diff to a scratch worktree of /repo and require
that ./vcheck Cxx exits 1 (VIOLATION) there -- and exits 0 on the pristine worktree.  Not part of the registered
checks: it validates the machinery's power to detect semantic changes."""
import sys, os, subprocess, glob, tempfile, shutil
HERE = os.path.dirname(os.path.dirname(os.path.abspath(__file__)))
pid = sys.argv[1]
patches = sys.argv[2:] or sorted(glob.glob(os.path.join(HERE, "spec", pid, "selftest", "*.diff")))
wt = tempfile.mkdtemp(prefix="vst-", dir="/tmp")
os.rmdir(wt)
subprocess.check_call(["git", "-C", "/repo", "worktree", "add", "--detach", "-f", wt, "HEAD"], stdout=subprocess.DEVNULL, stderr=subprocess.DEVNULL)
# carry over uncommitted changes of /repo (the checks are defined on the working tree)
d = subprocess.run(["git", "-C", "/repo", "diff", "HEAD"], capture_output=True, text=True).stdout
if d.strip():
    subprocess.run(["git", "-C", wt, "apply"], input=d, text=True, check=True)
    subprocess.check_call(["git", "-C", wt, "commit", "-qam", "wip"], stdout=subprocess.DEVNULL)
bad = 0
env = dict(os.environ, VERIF_REPO=wt)
try:
    for p in patches:
        r = subprocess.run(["git", "-C", wt, "apply", os.path.abspath(p)], capture_output=True, text=True)
        if r.returncode != 0:
            print("SELFTEST %s: patch does not apply: %s" % (os.path.basename(p), r.stderr.strip()[:200])); bad += 1; continue
        out = subprocess.run([os.path.join(HERE, "vcheck"), pid], env=env, capture_output=True, text=True)
        viol = [l for l in out.stdout.splitlines() if l.startswith("VIOLATION")]
        ok = out.returncode == 1 and viol
        print("SELFTEST %s: %s (rc=%d) %s" % (os.path.basename(p), "detected" if ok else "MISSED", out.returncode,
                                              (viol[0][:230] if viol else out.stdout.strip().splitlines()[-1][:200] if out.stdout.strip() else "")))
        if not ok:
            bad += 1
        subprocess.check_call(["git", "-C", wt, "checkout", "-q", "--", "."])
finally:
    subprocess.call(["git", "-C", "/repo", "worktree", "remove", "--force", wt], stdout=subprocess.DEVNULL, stderr=subprocess.DEVNULL)
    shutil.rmtree(wt, ignore_errors=True)
sys.exit(1 if bad else 0)
