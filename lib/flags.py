#!/usr/bin/env python3
# prints the goto-cc / gcc flags used for every harness (debugging aid)
import sys, os
sys.path.insert(0, os.path.dirname(os.path.abspath(__file__)))
import vlib
print(" ".join(vlib.cflags()))
