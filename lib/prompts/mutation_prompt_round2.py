import json,subprocess,sys
pid,pool=sys.argv[1],sys.argv[2]
assert pid!=pool
out=subprocess.run(['python3','/tmp/mut_prompt2.py',pid,pool],capture_output=True,text=True).stdout
out=out.replace("/tmp/mutscratch-%s/"%pid,"/tmp/mutscratch-%s-r2/"%pid)
m=json.load(open('/verif/seeded/%s/meta.json'%pid))
out+="\n\nAn earlier engineer already produced this change for the same property: \"%s\". Produce a DIFFERENT one: another function or another mechanism of the property (not a variation of the same line).\n"%m['change']
out+="\nNote on the test suite: the test dsl/dtd/task_generation is very slow when the machine is loaded; if it is the only stable_pass test that does not pass, re-run it alone (`ctest -R '^dsl/dtd/task_generation$' --timeout 2400`) before concluding. Use at most -j4 for ctest and ninja. Other long jobs are running on this machine.\n"
open('/tmp/mutprompt_%s_r2.txt'%pid,'w').write(out)
