import json,sys,re
pid=sys.argv[1]
props={json.loads(l)['id']:json.loads(l) for l in open('/verif/properties.jsonl')}
p=props[pid]
design=open('/verif/DESIGN.md').read()
m=re.search(r"### %s .*?(?=\n### C\d\d|\n---------)"%pid, design, re.S)
sec=m.group(0) if m else ""
extra=sys.argv[2] if len(sys.argv)>2 else ""
print(f"""You are building ONE property check inside an existing verification framework in /verif for the C code base at /repo (PaRSEC runtime, pinned commit, already built in /repo/_build). The technique is fixed: contract-based deductive verification of the REAL code with CBMC 6.11 (function contracts / pre-post conditions on the real functions, ghost state, rely/guarantee for concurrency; goto-cc + goto-instrument --dfcc + cbmc are installed). No network. Do not switch technique (no fuzzing, no hand-written models of the code, no testing as the deciding step).

FIRST read, in this order: /verif/lib/README.md (the rules and conventions, binding), /verif/spec/C07/spec.py, /verif/spec/C07/h_mask.c and h_counter.c (a working exemplar), /verif/lib/vlib.py (the driver: Job fields, how results are classified), /verif/include/verif.h, verif_vin.h, verif_rg.h. Sections 2, 4 of /verif/DESIGN.md give tool facts and the method.

YOUR PROPERTY: {pid} - {p['title']}
Statement: {p['statement']}
Quantifier: {p['quantifier']['text']}
Anchor files: {p['anchors']['files']}
Mechanisms: {json.dumps(p['anchors'].get('mechanism',[]))[:1500]}

THE PLAN for this property from DESIGN.md (follow it as far as it works; where the tool cannot do it, shrink bounds and label them, do not silently drop clauses):
{sec}
{extra}
ALSO READ /verif/lib/LESSONS.md (pitfalls found while building the first properties; binding) and look at /verif/spec/C41 and /verif/spec/C12 as further exemplars.

DELIVERABLE: directory /verif/spec/{pid}/ containing spec.py (META, MANIFEST, jobs(tier)), harness file(s) h_*.c that #include the real source, and selftest/*.diff patches; such that
  (a) `cd /verif && VERIF_JOBS=3 VERIF_MEM_GB=12 ./vcheck {pid}` exits 0 on the unchanged /repo in well under 5 minutes (quick tier), prints no VIOLATION line, and writes /verif/evidence/{pid}.json; `--tier thorough` also exits 0 (may take up to ~20 min; larger bounds / complete domains);
  (b) `VERIF_JOBS=3 VERIF_MEM_GB=12 ./lib/selftest.py {pid}` reports every patch 'detected' (write 4-6 realistic semantics-breaking patches: the MUT examples of the plan plus your own; they must still compile; equivalent mutants must not be flagged - drop those);
  (c) contracts are as strong as the tool bears and their top-level postconditions come from the property statement; each obligation has a name "{pid}.<function>.<pre|post|guar|inv|lemma>.<clause>"; every harness entry ends with V_CANARY; bounded stand-ins carry Job(bounded="...");
  (d) META lists functions under contract, trusted_base (stubs!) and assumptions honestly; MANIFEST has category ("proof" only if all non-bounded obligations are complete over the property's own domain, else "other"), text, note (what is NOT decided), technique.
If an obligation derived from the property statement FAILS on the unchanged tree: do not weaken it. Work out whether /repo really violates the property (build a small native C program against /repo/_build/parsec/libparsec.so showing it; link flags: -I/repo/_build/parsec/include -I/repo/_build -I/repo/parsec/include -I/repo -L/repo/_build/parsec -lparsec -Wl,-rpath,/repo/_build/parsec) or whether your contract/harness is wrong (then fix your harness). If it is a genuine defect, keep the failing obligation in its own Job, and describe input + native demonstration in your final report (I will decide on fix vs known finding); do NOT edit /repo.

HARD CONSTRAINTS: write only under /verif/spec/{pid}/ and scratch dirs under /tmp (remove them when done; for crafting patches use `git -C /repo worktree add --detach /tmp/wt-{pid} HEAD`, edit there, `git -C /tmp/wt-{pid} diff > patch`, `git -C /tmp/wt-{pid} checkout -- .`, and finally `git -C /repo worktree remove --force /tmp/wt-{pid}`). Do NOT modify /repo, /verif/lib, /verif/include, /verif/MANIFEST.json, other spec directories, and do NOT run git commit in /verif. If you need a change in the shared lib/include, work around it locally (a header inside your spec dir) and tell me in the report. Always wrap direct cbmc invocations in `timeout` and never print more than ~100 lines of tool output (pipe through tail/grep). Other agents are running cbmc concurrently: use at most 3-4 parallel solver processes. `pkill -f` patterns can kill your own shell: kill by pid. Spend at most about 90 minutes; a smaller check that is sound, passes and detects its mutants beats an ambitious one that does not finish.

FINAL REPORT (short): files written; functions under contract; jobs with timings (quick/thorough); selftest result per patch; anything failing on the unchanged tree with your analysis; clauses of the property NOT decided; anything you needed from the shared framework.""")
