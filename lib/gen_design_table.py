#!/usr/bin/env python3
"""Prints the 'as built' table for DESIGN.md section 12 from spec/*/spec.py, seeded/*/meta.json and evidence/*.json."""
import os, sys, json, glob, importlib.util
HERE = os.path.dirname(os.path.dirname(os.path.abspath(__file__)))
sys.path.insert(0, os.path.join(HERE, "lib"))
claimed = open(os.path.join(HERE, "spec", "claimed.txt")).read().split()
known = json.load(open(os.path.join(HERE, "known_findings.json")))
print("| id | level | functions under contract | jobs quick / thorough | obligations (quick) | own mutation patches | seeded change | findings |")
print("|---|---|---|---|---|---|---|---|")
for d in sorted(claimed):
    f = os.path.join(HERE, "spec", d, "spec.py")
    sp = importlib.util.spec_from_file_location("s_" + d, f); m = importlib.util.module_from_spec(sp); sp.loader.exec_module(m)
    try:
        q = len(m.jobs("quick")); t = len(m.jobs("thorough"))
    except Exception as e:
        q = t = "?"
    ev = {}
    try:
        ev = json.load(open(os.path.join(HERE, "evidence", d + ".json")))["coverage"]
    except Exception:
        pass
    ob = "%s + %s bounded" % (ev.get("obligations", "?"), ev.get("bounded_obligations", 0)) if ev.get("bounded_obligations") else str(ev.get("obligations", "?"))
    npatch = len(glob.glob(os.path.join(HERE, "spec", d, "selftest", "*.diff")))
    def verdict(path):
        if not os.path.exists(path):
            return None
        det = json.load(open(path))["detected_by"]
        low = det.lower()
        if det.startswith("MISSED") and "detected by the owner" in low or det.startswith("MISSED") and "but detected by the c" in low:
            return "detected by the owning property's check"
        if ("only after" in low or "obligation added after" in low or det.startswith("NOT reported")) and not det.startswith("MISSED"):
            return "missed, detected after strengthening"
        if det.startswith("MISSED, and NOT"):
            return "missed, not repaired"
        if det.startswith("MISSED") and ("kept as" in det or "After" in det or "after" in det) and "requested" not in det:
            return "missed, detected after strengthening"
        if det.startswith("MISSED"):
            return "missed"
        if det.startswith("not by"):
            return "detected by the owning property's check"
        return "detected as built"
    v1 = verdict(os.path.join(HERE, "seeded", d, "meta.json"))
    v2 = verdict(os.path.join(HERE, "seeded", d + "-r2", "meta.json"))
    seeded = "; ".join(x for x in (("r1: " + v1) if v1 else None, ("r2: " + v2) if v2 else None) if x) or "-"
    fk = [k for k in known if k["property"] == d]
    fs = ", ".join(("fixed " + k.get("commit", "")) if k["status"] == "fixed" else "known: " + k["id"] for k in fk) or "-"
    print("| %s | %s | %d | %s / %s | %s | %d | %s | %s |" % (d, m.MANIFEST["category"], len(ev.get("functions_under_contract", [])), q, t, ob, npatch, seeded, fs))
