#!/usr/bin/env python3
"""Prints the 'as built' table for DESIGN.md section 12 from spec/*/spec.py, seeded/*/meta.json and evidence/*.json."""
import os, sys, json, glob, importlib.util
HERE = os.path.dirname(os.path.dirname(os.path.abspath(__file__)))
sys.path.insert(0, os.path.join(HERE, "lib"))
claimed = open(os.path.join(HERE, "spec", "claimed.txt")).read().split()
known = json.load(open(os.path.join(HERE, "known_findings.json")))
print("| id | level | functions under contract | jobs quick / thorough | obligations (quick) | own mutation patches | seeded change | findings |")
print("|---|---|---|---|---|---|---|---|")
for d in sorted(claimed):
    f = os.path.join(HERE, "spec", d, "spec.py")
    sp = importlib.util.spec_from_file_location("s_" + d, f); m = importlib.util.module_from_spec(sp); sp.loader.exec_module(m)
    try:
        q = len(m.jobs("quick")); t = len(m.jobs("thorough"))
    except Exception as e:
        q = t = "?"
    ev = {}
    try:
        ev = json.load(open(os.path.join(HERE, "evidence", d + ".json")))["coverage"]
    except Exception:
        pass
    ob = "%s + %s bounded" % (ev.get("obligations", "?"), ev.get("bounded_obligations", 0)) if ev.get("bounded_obligations") else str(ev.get("obligations", "?"))
    npatch = len(glob.glob(os.path.join(HERE, "spec", d, "selftest", "*.diff")))
    sm = os.path.join(HERE, "seeded", d, "meta.json")
    seeded = "-"
    if os.path.exists(sm):
        det = json.load(open(sm))["detected_by"]
        seeded = "missed at first, detected after strengthening" if det.startswith("MISSED") else "detected as built"
    fk = [k for k in known if k["property"] == d]
    fs = ", ".join(("fixed " + k.get("commit", "")) if k["status"] == "fixed" else "known: " + k["id"] for k in fk) or "-"
    print("| %s | %s | %d | %s / %s | %s | %d | %s | %s |" % (d, m.MANIFEST["category"], len(ev.get("functions_under_contract", [])), q, t, ob, npatch, seeded, fs))
